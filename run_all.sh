#!/bin/bash
# runs every claimed check (tier $1, default quick) against /repo and prints one line each
tier=${1:-quick}
cd "$(dirname "$0")"
for id in $(python3 -c "import json;print(' '.join(c['property_id'] for c in json.load(open('MANIFEST.json'))['checks']))"); do
  out=$(./check $id --tier $tier 2>&1); rc=$?
  echo "rc=$rc $(echo "$out" | grep -E "^$id tier" | cut -c1-260)"
  echo "$out" | grep -E "VIOLATION|HARNESS-ERROR|KNOWN-FINDING" | cut -c1-300
done
