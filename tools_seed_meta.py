#!/usr/bin/env python3
"""Copies the sub-agents' changes from /tmp/mut/out/<ID> into /verif/seeded/<ID>/ and (re)evaluates them:
suite with the change, demo with / without, and the listed checks against the changed worktree /tmp/mut/<ID>."""
import json, os, re, shutil, subprocess, sys
NEEDS = {
 'C01': 'a process returning at an instant at which an ordinary event triggered earlier is still due, with a joiner / until-process observing it',
 'C02': 'a failure whose class derives from BaseException but not Exception, left uncaught by a process that somebody joins / waits on',
 'C03': 'a never-ending scheduler Monitor whose tick falls into a step() segment of a split plan after the traffic has drained (agenda otherwise empty)',
 'C04': 'an interrupt issued in the very instant the victim ended, before its completion event is processed',
 'C05': 'an operand failing in the same instant, between the condition being triggered and being processed',
 'C06': 'capacity >= 2, two current users with identical (priority, time, preempt) keys and a strictly better preempting request',
 'C07': 'a partially filled container whose oldest pending get asks for more than the level while a younger one fits',
 'C08': 'DRR behind a many-to-one flow2class with a head-of-line packet larger than the remaining deficit',
 'C09': 'packet-limit mode and an arrival while the port is idle or between two transmissions of one instant (busy == 0) with qlimit-1 packets waiting',
 'C10': 'two or more packets with distinct arrival instants entering while an earlier one is still propagating',
 'C11': 'a packet strictly larger than the bucket followed by another packet before the debt is refilled',
 'C12': 'WFQ: an arrival exactly between two transmissions, or a same-instant burst of one class with a later packet smaller than an earlier one',
 'C13': 'three priority levels: middle-level queue drains while a higher-priority packet arrived during that transmission and a lower level is backlogged',
 'C14': 'WFQ class going idle and becoming backlogged again while others stay backlogged and its old finish stamp is still ahead of virtual time',
 'C15': 'DRR class that empties during its visit and refills before the next visit (credit must be forgotten)',
 'C16': 'flow of >= 5 MSS: an ACK lost, the following data segment lost too, a later segment of the window getting through',
 'C17': 'third duplicate ACK while cwnd < 4*MSS (floor max(2*MSS, cwnd/2) matters)',
 'C18': 'NSplitter with N >= 3 and at least two of the outputs 1..N-1 plugged in',
 'C19': 'auto-restart timer restarted from inside its own callback with a period different from the original one',
 'C20': 'two events due at one simulated instant with a slow step (strict mode) or a sync() between them',
}
CHECKS = {'C08': ['C08', 'C12'], 'C12': ['C12', 'C14']}
BASE = os.environ.get('MUTDIR', '/tmp/mut')
SUFFIX = os.environ.get('SEED_SUFFIX', '')
ids = sys.argv[1:] or sorted(NEEDS)
for i in ids:
    src, dst = '%s/out/%s' % (BASE, i), '/verif/seeded/%s%s' % (i, SUFFIX)
    if not os.path.exists(src + '/patch.diff'):
        print('skip', i); continue
    os.makedirs(dst, exist_ok=True)
    for f in ('patch.diff', 'demo.py', 'notes.md'):
        if os.path.exists(src + '/' + f):
            shutil.copy(src + '/' + f, dst + '/' + f)
    checks = os.environ.get('SEED_CHECKS', '').split() or CHECKS.get(i, [i])
    out = subprocess.run(['/verif/tools_eval_seed.sh', i] + checks, capture_output=True, text=True, env=dict(os.environ, MUTDIR=BASE)).stdout
    suite = re.search(r'== suite with change\n(.*)', out)
    dw = re.search(r'== demo with change\nexit=(\d+)', out)
    dwo = re.search(r'== demo without change\nexit=(\d+)', out)
    caught = {}
    for c in checks:
        m = re.search(r'== check %s against the changed tree\n(.*?)(?=\n== check|\Z)' % c, out, re.S)
        blk = m.group(1) if m else ''
        labels = sorted(set(re.findall(r'\["((?:c\d\d|no)[^"]*)"', blk)))
        caught[c] = {'violation_reported': 'VIOLATION property=%s' % c in blk, 'labels': labels[:6]}
    meta = {'breaks_property': i, 'needs_to_manifest': os.environ.get('SEED_NEEDS') or NEEDS[i], 'source': 'independent sub-agent given only the property text and a scratch worktree',
            'patch_files': re.findall(r'^\+\+\+ b/(.*)$', open(dst + '/patch.diff').read(), re.M),
            'what_was_run': ['cd <worktree> && git apply patch.diff && /venv/bin/python -m pytest -q -p no:cacheprovider --timeout=900',
                             'PYTHONPATH=<worktree> /venv/bin/python demo.py   (with and without the change)',
                             'VERIF_REPO=<worktree> /verif/check <ID> --tier quick'],
            'suite_with_change': suite.group(1).strip() if suite else None,
            'demo_exit_with_change': int(dw.group(1)) if dw else None, 'demo_exit_without_change': int(dwo.group(1)) if dwo else None,
            'checks': caught}
    json.dump(meta, open(dst + '/meta.json', 'w'), indent=1)
    print(i, meta['suite_with_change'], meta['demo_exit_with_change'], meta['demo_exit_without_change'],
          {c: (v['violation_reported'], v['labels'][:2]) for c, v in caught.items()})
