#!/bin/bash
# usage: tools_eval_refactor.sh <ID> [check ids...]  -- a behaviour-preserving refactoring living in $MUTDIR/<ID> (+ $MUTDIR/out/<ID>):
# suite passes, demo output identical with/without, and the listed checks (default: all that import the touched files) must stay silent
id=$1; shift; checks=${@:-$id}
base=${MUTDIR:-/tmp/mut6}; wt=$base/$id; out=$base/out/$id
cd $wt || exit 9
git checkout -q -- . ; git apply $out/patch.diff || { echo "PATCH DOES NOT APPLY"; exit 9; }
echo "== diffstat"; git diff --stat | tail -1
echo "== suite with change"; /venv/bin/python -m pytest -q -p no:cacheprovider --timeout=900 2>&1 | tail -1
PYTHONPATH=$wt timeout 300 /venv/bin/python $out/demo.py >$out/demo_with.log 2>&1; echo "demo exit with=$?"
git checkout -q -- .
PYTHONPATH=$wt timeout 300 /venv/bin/python $out/demo.py >$out/demo_without.log 2>&1; echo "demo exit without=$?"
cmp -s $out/demo_with.log $out/demo_without.log && echo "demo output identical" || echo "DEMO OUTPUT DIFFERS"
git apply $out/patch.diff
cd /verif
for c in $checks; do
  echo "== check $c against the refactored tree"
  VERIF_REPO=$wt ./check $c --tier ${TIER:-quick} 2>&1 | grep -E "VIOLATION|HARNESS-ERROR|KNOWN|^$c tier|failed=" | cut -c1-420 | head -8
  echo "rc=${PIPESTATUS[0]}"
done
