"""CrossHair (second engine) harnesses for C16 part A: TCPSink ACK == contiguous prefix length received so far.
Every function returns True iff the property holds for its arguments (post: __return__)."""
from typing import List, Tuple


def _oracle(segs: List[Tuple[int, int]]) -> List[int]:
    out = []
    got: List[Tuple[int, int]] = []
    for (q, z) in segs:
        got.append((q, q + z))
        cur = 0
        for _ in range(len(got)):
            for (s, e) in got:
                if s <= cur < e:
                    cur = e
        out.append(cur)
    return out


def _acks(segs: List[Tuple[int, int]]) -> List[int]:
    from onl.sim import Environment
    from onl.packet import Packet, TCPSink

    class Rec:
        def __init__(self):
            self.acks = []

        def put(self, p):
            self.acks.append(p.ack)
    env = Environment()
    sink = TCPSink(env)
    rec = Rec()
    sink.out = rec
    for (q, z) in segs:
        sink.put(Packet(0, z, q, flow_id=3))
    return rec.acks


def _ok(segs: List[Tuple[int, int]]) -> bool:
    a = _acks(segs)
    return a == _oracle(segs) and all(x <= y for x, y in zip(a, a[1:]))


def acks2(q0: int, z0: int, q1: int, z1: int) -> bool:
    """
    pre: q0 >= 0 and z0 >= 1 and q1 >= 0 and z1 >= 1
    post: __return__
    """
    return _ok([(q0, z0), (q1, z1)])


def acks3(q0: int, z0: int, q1: int, z1: int, q2: int, z2: int) -> bool:
    """
    pre: q0 >= 0 and z0 >= 1 and q1 >= 0 and z1 >= 1 and q2 >= 0 and z2 >= 1
    post: __return__
    """
    return _ok([(q0, z0), (q1, z1), (q2, z2)])


def acks4(q0: int, z0: int, q1: int, z1: int, q2: int, z2: int, q3: int, z3: int) -> bool:
    """
    pre: q0 >= 0 and z0 >= 1 and q1 >= 0 and z1 >= 1 and q2 >= 0 and z2 >= 1 and q3 >= 0 and z3 >= 1
    post: __return__
    """
    return _ok([(q0, z0), (q1, z1), (q2, z2), (q3, z3)])


TARGETS = {'quick': ['acks2', 'acks3'], 'thorough': ['acks2', 'acks3', 'acks4']}
