"""CrossHair harnesses for C09: the tail-drop rule of Port.put for a same-instant burst (no kernel steps)."""


def burst_bytes(qlimit: int, s0: int, s1: int, s2: int) -> bool:
    """
    pre: qlimit >= 1 and s0 >= 1 and s1 >= 1 and s2 >= 1
    post: __return__
    """
    from onl.sim import Environment
    from onl.packet import Packet
    from onl.netdev import Port
    env = Environment()
    port = Port(env, 8, qlimit, True, 'p')
    held = 0
    ok = True
    for i, s in enumerate((s0, s1, s2)):
        d0 = port.packets_dropped
        port.put(Packet(0, s, i))
        dropped = port.packets_dropped != d0
        ok = ok and (dropped == (held + s > qlimit))
        if not dropped:
            held += s
        ok = ok and port.byte_size == held and held <= qlimit
    return ok and port.packets_received == 3


def burst_packets(qlimit: int, s0: int, s1: int, s2: int) -> bool:
    """
    pre: qlimit >= 1 and s0 >= 1 and s1 >= 1 and s2 >= 1
    post: __return__
    """
    from onl.sim import Environment
    from onl.packet import Packet
    from onl.netdev import Port
    env = Environment()
    port = Port(env, 8, qlimit, False, 'p')
    waiting = 0
    ok = True
    for i, s in enumerate((s0, s1, s2)):
        d0 = port.packets_dropped
        port.put(Packet(0, s, i))
        dropped = port.packets_dropped != d0
        ok = ok and (dropped == (waiting >= qlimit - 1))
        if not dropped:
            waiting += 1
    return ok


TARGETS = {'quick': ['burst_bytes'], 'thorough': ['burst_bytes', 'burst_packets']}
