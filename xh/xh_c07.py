"""CrossHair harnesses for C07: Container guards, one or two operations from an arbitrary initial level (no kernel steps)."""


def put_then_get(cap: int, init: int, a: int, b: int) -> bool:
    """
    pre: cap >= 1 and 0 <= init <= cap and a >= 1 and b >= 1
    post: __return__
    """
    from onl.sim import Environment, Container
    env = Environment()
    c = Container(env, capacity=cap, init=init)
    p = c.put(a)
    lvl = init + a if init + a <= cap else init
    ok = (p.triggered == (init + a <= cap)) and c.level == lvl and 0 <= c.level <= cap
    g = c.get(b)
    lvl2 = lvl - b if b <= lvl else lvl
    ok = ok and (g.triggered == (b <= lvl)) and c.level == lvl2 and 0 <= c.level <= cap
    return ok


def get_then_put_unblocks(cap: int, init: int, a: int, b: int) -> bool:
    """a blocked get is served as soon as a put makes it satisfiable (after the put event is processed)
    pre: cap >= 1 and 0 <= init <= cap and a >= 1 and b >= 1 and a > init and b <= cap - init
    post: __return__
    """
    from onl.sim import Environment, Container
    env = Environment()
    c = Container(env, capacity=cap, init=init)
    g = c.get(a)
    if g.triggered:
        return False
    c.put(b)
    env.run()
    return g.triggered == (a <= init + b) and c.level == (init + b - a if a <= init + b else init + b)


TARGETS = {'quick': ['put_then_get'], 'thorough': ['put_then_get', 'get_then_put_unblocks']}
