"""Shared pieces of the network-element harnesses (C08-C18)."""
from symx import (sym_num, sym_int, check, obs, cover, eq, ge, le, lt, fail, Ite, smax, And, Or, Not)

FIELDS = ('packet_id', 'flow_id', 'src', 'size', 'time', 'payload')


class Rec:
    """Recording device used as `out`: logs (packet, now, action sequence number)."""

    def __init__(self, env, name='sink', on_put=None, clock=None):
        self.env = env
        self.name = name
        self.log = []
        self.on_put = on_put
        self.element_id = name
        self.out = None

    def put(self, packet):
        self.log.append((packet, self.env.now))
        if self.on_put is not None:
            self.on_put(packet)


def snapshot(pkt):
    return tuple(getattr(pkt, f) for f in FIELDS)


def check_unchanged(tag, pkt, snap):
    for f, v in zip(FIELDS, snap):
        cur = getattr(pkt, f)
        if f in ('size', 'time'):
            check(tag + '.field-unchanged', eq(cur, v), f)
        else:
            check(tag + '.field-unchanged', cur is v or cur == v, f)


def mk_packet(Packet, now, size, pid, flow_id=0, src='src'):
    return Packet(now, size, pid, src=src, flow_id=flow_id, payload=('pl', pid))


def run_to_quiescence(env, label='no-raise', max_steps=100000):
    """env.run() with the property's no-raise clause attached. Returns True if ok."""
    try:
        env.run()
        return True
    except Exception as ex:  # noqa
        fail(label, '%s: %s' % (type(ex).__name__, ex))
        return False


def step_all(env, after_step, label='no-raise', max_steps=100000):
    """Drive env.step() until the agenda is empty, calling after_step() after each."""
    from onl.sim.core import EmptySchedule
    n = 0
    try:
        while env.peek() != float('inf'):
            env.step()
            after_step()
            n += 1
            if n > max_steps:
                fail('no-hang', 'more than %d steps' % max_steps)
                return False
        return True
    except EmptySchedule:
        return True
    except Exception as ex:  # noqa
        fail(label, '%s: %s' % (type(ex).__name__, ex))
        return False


class DrawStub:
    """Stand-in for a distribution callable / random.uniform: a fresh symbolic
    value per call, recorded with the caller-visible context."""

    def __init__(self, name, sort='real', lo=0, hi=None, n=None, after=None, lo_strict=False):
        self.name, self.sort, self.lo, self.hi, self.n, self.after = name, sort, lo, hi, n, after
        self.lo_strict = lo_strict
        self.calls = []

    def __call__(self, *a):
        i = len(self.calls)
        if self.n is not None and i >= self.n:
            v = self.after
        else:
            v = sym_num('%s%d' % (self.name, i), self.sort, self.lo, self.hi, self.lo_strict)
        self.calls.append(v)
        return v


class RandomStub:
    """Replacement for the `random` module object referenced by an onl module."""

    def __init__(self, name='u'):
        self.draws = []
        self.name = name
        self.context = None

    def uniform(self, a, b):
        v = sym_num('%s%d' % (self.name, len(self.draws)), 'real', a, b)
        self.draws.append((v, self.context))
        return v
