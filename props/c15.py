"""C15 -- round robin allowances (RR, WRR, DRR) and DRR fairness."""
import random
from fractions import Fraction

from symx import (check, obs, cover, eq, ge, le, lt, gt, fail, And, Or, Not, smax, ssum, sabs, Implies)
from props.sched_common import SchedRun, flow_patterns

PROPERTY = 'C15'
MINQ = 1500


class RRRef:
    """reference round-robin automaton written from the statement; advanced at
    every observed service start on the observed waiting sets"""

    def __init__(self, r):
        self.r = r
        self.kind = r.kind
        self.classes = list(r.table.keys())        # declaration order
        self.ptr = 0
        self.in_visit = False
        self.sent = 0
        mw = min(r.table.values())
        self.quantum = {c: Fraction(MINQ * r.table[c], mw) for c in self.classes}
        self.credit = {c: 0 for c in self.classes}

    def clone(self):
        o = RRRef.__new__(RRRef)
        o.__dict__.update(self.__dict__)
        o.credit = dict(self.credit)
        return o

    def after_idle(self, ptr):
        o = self.clone()
        o.ptr = ptr
        o.in_visit = False
        o.sent = 0
        o.credit = {k: 0 for k in self.classes}
        return o

    def departed(self, c, class_empty):
        """a packet of class c has just left; DRR forgets the credit as soon as the class's queue empties (which ends the visit),
        whatever arrives later in that instant"""
        if self.kind == 'DRR' and class_empty and self.in_visit and self.classes[self.ptr] == c:
            self.credit[c] = 0
            self.in_visit = False
            self.ptr = (self.ptr + 1) % len(self.classes)

    def expect(self, waiting):
        """returns the packet the discipline must start next (None if nothing waits)"""
        if not any(waiting.get(c) for c in self.classes):
            return None
        n = len(self.classes)
        for _ in range(64 * n):
            c = self.classes[self.ptr]
            w = waiting.get(c) or []
            if self.kind == 'RR':
                if w:
                    self.ptr = (self.ptr + 1) % n
                    return w[0]
                self.ptr = (self.ptr + 1) % n
            elif self.kind == 'WRR':
                if w and self.sent < self.r.table[c]:
                    self.sent += 1
                    return w[0]
                self.sent = 0
                self.ptr = (self.ptr + 1) % n
            else:  # DRR
                if self.in_visit:
                    if not w:
                        self.credit[c] = 0          # queue emptied: credit forgotten
                        self.in_visit = False
                        self.ptr = (self.ptr + 1) % n
                        continue
                else:
                    if not w:
                        self.ptr = (self.ptr + 1) % n
                        continue
                    self.credit[c] = self.credit[c] + self.quantum[c]
                    self.in_visit = True
                head = w[0]
                if head.size <= self.credit[c]:     # a decision of the reference (coincides with the implementation's)
                    self.credit[c] = self.credit[c] - head.size
                    return head
                self.in_visit = False
                self.ptr = (self.ptr + 1) % n
        return None


def h_rr(cfg):
    box = {'log': []}

    def on_start(cur, was_empty):
        r = box['r']
        waiting = {c: list(v) for c, v in r.waiting.items()}
        cands = box['cands']
        if was_empty:
            # after an idle period the round starts again at the first declared class, or goes on
            # from where it stopped: the statement allows both
            ptrs = sorted({0} | {c.ptr for c in cands})
            cands = [cands[0].after_idle(pt) for pt in ptrs]
            cover('restart-after-idle')
        matches, exps = [], []
        for c in cands:
            e = c.expect(waiting)
            exps.append(getattr(e, 'packet_id', None))
            if e is cur:
                matches.append(c)
        check('c15.round-robin-choice', len(matches) > 0,
              'started %s, reference expects %s' % (cur.packet_id, exps))
        if not matches:
            # resynchronise so that one divergence is reported once
            c = cands[0].after_idle(cands[0].classes.index(r.cls(cur)))
            c.expect(waiting)
            matches = [c]
        box['cands'] = matches
        backlog = {c: len(waiting.get(c) or []) > 0 for c in r.table}
        box['log'].append((r.cls(cur), cur.size, backlog))
        deficit_check()

    def deficit_check():
        r = box['r']
        if r.kind == 'DRR':
            Lmax = smax([p.size for p, _, _ in r.arrivals]) if r.arrivals else 0
            for c, q in box['cands'][0].quantum.items():
                d = r.sched.deficit[c]
                check('c15.deficit-range', And(ge(d, 0), lt(d, q + Lmax)), c)

    def on_dep(p):
        r = box['r']
        c = r.cls(p)
        for cand in box['cands']:
            cand.departed(c, not r.waiting.get(c))
        deficit_check()

    r = SchedRun(cfg, stepping=True, on_start=on_start, on_dep=on_dep)
    box['r'] = r
    box['cands'] = [RRRef(r)]
    if not r.run():
        return
    if not cfg.get('ties_at_departures'):
        r.no_tie_assumption()
    if not r.check_all_depart_once('c15'):
        return
    check('c15.every-start-seen', len(r.starts) == r.n)
    log = box['log']
    if r.kind == 'DRR':
        Q = box['cands'][0].quantum
        Lmax = smax([p.size for p, _, _ in r.arrivals])
        cl = list(r.table.keys())
        for i in cl:
            for j in cl:
                if not i < j:
                    continue
                for m1 in range(len(log)):
                    bi = bj = 0
                    for m2 in range(m1, len(log)):
                        c, size, backlog = log[m2]
                        if not (backlog[i] and backlog[j]):
                            break
                        if c == i:
                            bi = bi + size
                        elif c == j:
                            bj = bj + size
                        if m2 > m1:
                            check('c15.drr-fairness',
                                  lt(sabs(bi / Q[i] - bj / Q[j]), 4 + 3 * Lmax * (1 / Q[i] + 1 / Q[j])), (i, j, m1, m2))
                            cover('fairness-evaluated')
    for (p, D) in r.departs:
        obs('dep', p.packet_id, D)
    if r.n >= 2:
        cover('nontrivial')


HARNESSES = {'rr': h_rr}


def VIOL_KEY(cfg):
    return cfg.get('kind')


def jobs(tier, seed):
    rng = random.Random(5000 + int(seed))
    js = []
    n = 4 if tier == 'quick' else 5
    for kind, tables in (('RR', [{0: 1, 1: 1}]), ('WRR', [{0: 1, 1: 2}, {0: 2, 1: 1}]), ('DRR', [{0: 1, 1: 2}, {0: 1, 1: 1}])):
        for t in tables:
            pats = flow_patterns(n if kind != 'DRR' else n - 1, 2, tier, rng)
            if tier == 'quick':
                pats = pats[:3]
            for pat in pats:
                cfg = {'kind': kind, 'rate': 8192, 'table': t, 'flows': pat, 'sorts': 'int'}
                if kind == 'DRR':
                    cfg['smax'] = 3200
                js.append({'harness': 'rr', 'cfg': cfg, 'weight': 10 if kind != 'DRR' else 40})
            # backlogged bursts (several packets per class waiting at once)
            for pat, burst in (([0, 0, 1, 1, 0], [0, 1, 1, 1, 1]), ([1, 0, 1, 0, 0], [0, 1, 1, 1, 0]), ([0, 1, 0, 1, 1, 0], [0, 1, 1, 1, 1, 1])):
                if kind == 'DRR' and len(pat) > (4 if tier == 'quick' else 5):
                    pat, burst = pat[:4 if tier == 'quick' else 5], burst[:4 if tier == 'quick' else 5]
                cfg = {'kind': kind, 'rate': 8192, 'table': t, 'flows': pat, 'sorts': 'int', 'burst': burst}
                if kind == 'DRR':
                    cfg['smax'] = 3200
                js.append({'harness': 'rr', 'cfg': cfg, 'weight': 10 if kind != 'DRR' else 60})
    # longer workloads, few timing variables: two bursts (effects that need several rounds to show)
    for kind, t in (('RR', {0: 1, 1: 1}), ('WRR', {0: 1, 1: 2}), ('DRR', {0: 1, 1: 2})):
        m = 8 if kind != 'DRR' else (6 if tier == 'quick' else 7)
        cfg = {'kind': kind, 'rate': 8192 if kind == 'DRR' else 8, 'table': t, 'flows': [0, 1, 0, 1, 1, 0, 0, 1][:m], 'sorts': 'int',
               'burst': [0, 1, 1, 1, 0, 1, 1, 1][:m], 'smax': 2 if kind != 'DRR' else 1600}
        js.append({'harness': 'rr', 'cfg': cfg, 'weight': 60, 'opts': {'max_paths': 20000}})
    # arrivals in the very instant a transmission ends, after the delivery (late wake-up): the class may have just emptied
    for kind, t in (('DRR', {0: 1, 1: 2}), ('RR', {0: 1, 1: 1}), ('WRR', {0: 1, 1: 2})):
        cfg = {'kind': kind, 'rate': 8192, 'table': t, 'flows': [0, 1, 1, 0], 'sorts': 'int', 'burst': [0, 1, 1, 0],
               'split_gap': [3], 'smax': 1600 if kind == 'DRR' else 3, 'ties_at_departures': True}
        js.append({'harness': 'rr', 'cfg': cfg, 'weight': 80, 'opts': {'max_paths': 8000}})
    # DRR with several flows mapped onto one class (credit and emptiness are per class, not per flow)
    for pat in ([5, 6, 8, 5, 6], [5, 8, 6, 6, 5]):
        js.append({'harness': 'rr', 'weight': 80, 'opts': {'max_paths': 8000},
                   'cfg': {'kind': 'DRR', 'rate': 8192, 'table': {7: 1, 8: 1}, 'flows': pat, 'sorts': 'int', 'burst': [0, 1, 1, 1, 1],
                           'flow2class': {5: 7, 6: 7, 8: 8}, 'smax': 1600}})
    # a DRR visit of 37 small packets (1500 bytes of credit, 40-byte packets), another class waiting
    js.append({'harness': 'rr', 'weight': 60, 'opts': {'max_paths': 2000},
               'cfg': {'kind': 'DRR', 'rate': 8192, 'table': {0: 1, 1: 1}, 'flows': [0] * 40 + [1, 1], 'sorts': 'int',
                       'burst': [0] + [1] * 41, 'sizes': {str(i): 40 for i in range(42)}}})
    # very long visits: a weight of 10 (WRR) and 13 packets handed in at one instant
    for kind, t in (('WRR', {0: 10, 1: 1}), ('RR', {0: 1, 1: 1}), ('WRR', {0: 1, 1: 12})):
        cfg = {'kind': kind, 'rate': 8, 'table': t, 'flows': [0] * 11 + [1, 1] if t[0] >= t[1] else [1] * 11 + [0, 0], 'sorts': 'int',
               'burst': [0] + [1] * 12, 'smax': 2}
        js.append({'harness': 'rr', 'cfg': cfg, 'weight': 60, 'opts': {'max_paths': 6000}})
    # weight tables without a unit weight (WRR: the allowance is the weight itself; DRR: quantum 1500*w/min(w))
    for kind, t in (('WRR', {0: 2, 1: 3}), ('WRR', {0: 3, 1: 2}), ('DRR', {0: 2, 1: 3})):
        cfg = {'kind': kind, 'rate': 8192, 'table': t, 'flows': [0, 0, 0, 1, 1, 1, 1, 0][:8 if kind == 'WRR' else 5], 'sorts': 'int',
               'burst': [0, 1, 1, 1, 1, 1, 1, 1][:8 if kind == 'WRR' else 5]}
        if kind == 'DRR':
            cfg['smax'] = 3200
        else:
            cfg['smax'] = 2
        js.append({'harness': 'rr', 'cfg': cfg, 'weight': 40})
    # declaration order is not the ascending order of the ids
    for kind, t in (('RR', {2: 1, 0: 1, 1: 1}), ('RR', {1: 1, 0: 1}), ('WRR', {1: 2, 0: 1}), ('DRR', {1: 1, 0: 2})):
        cfg = {'kind': kind, 'rate': 8192, 'table': t, 'table_order': list(t.keys()), 'sorts': 'int',
               'flows': [0, 1, 2, 0][:4] if len(t) == 3 else [0, 1, 0, 1], 'burst': [0, 1, 1, 1]}
        if kind == 'DRR':
            cfg['smax'] = 3200
        js.append({'harness': 'rr', 'cfg': cfg, 'weight': 30})
    # weights whose quantum 1500*w/min(w) is not a whole number of bytes
    js.append({'harness': 'rr', 'weight': 60,
               'cfg': {'kind': 'DRR', 'rate': 8192, 'table': {0: 7, 1: 10}, 'flows': [1, 1, 0, 0], 'sorts': 'int',
                       'burst': [0, 1, 1, 1], 'smin': 2100, 'smax': 2200}})
    # three classes
    for kind, t in (('RR', {0: 1, 1: 1, 2: 1}), ('WRR', {0: 2, 1: 1, 2: 1}), ('DRR', {0: 1, 1: 2, 2: 1})):
        cfg = {'kind': kind, 'rate': 8192, 'table': t, 'flows': [2, 0, 1, 2, 0], 'sorts': 'int', 'burst': [0, 1, 1, 1, 1]}
        if kind == 'DRR':
            cfg['smax'] = 3200
            cfg['flows'], cfg['burst'] = [2, 0, 1, 2], [0, 1, 1, 1]
        js.append({'harness': 'rr', 'cfg': cfg, 'weight': 50})
    return js


META = {
    'rule': 'one case = one feasible path of an RR/WRR/DRR workload (sizes below and above the quantum, gaps symbolic)',
    'required_labels': ['c15.round-robin-choice', 'c15.deficit-range', 'c15.drr-fairness', 'c15.each-once'],
    'required_covers': ['nontrivial', 'restart-after-idle', 'fairness-evaluated'],
    'bounds': {'quick': 'n=4 packets (bursts of 5-6), 2-3 classes, weights {1,1},{1,2},{2,1}; DRR sizes in [1,3200] (quantum 1500*w/min w); rate 8192; weight tables without a unit weight; several flows per DRR class; late wake-ups (arrival after a departure of the same instant, credit forgotten at the emptying departure); 13-packet bursts; two-burst workloads of 6-8 packets',
               'thorough': 'n=5'},
    'assumptions': ['except in the late wake-up jobs: arrival instants differ from each other (unless handed in as one burst) and from departure instants: the '
                    'statement does not order a choice and an arrival of the same instant',
                    'after an idle period the round may restart at any backlogged class',
                    'DRR: "queue empties" is evaluated when the transmission ends (the in-service packet counts as queued)'],
    'stubs': [],
    'outside': ['periods longer than the workload bound ("however long the period")', 'packets larger than 3200 bytes for DRR'],
}

MANIFEST = {
    'level_text': 'Bounded model checking by symbolic execution of the real RR/WRR/DRR against a reference round-robin '
                  'automaton written from the statement, advanced at every observed service start; DRR credit range and the '
                  'pairwise fairness bound are solver obligations over symbolic sizes.',
    'level_note': 'Trusted: z3, symx proxies (validated by concrete witness replay); workloads <= 6 packets, DRR sizes <= 3200; '
                  'same-instant arrival/choice coincidences excluded (covered discipline-independently by C12).',
}
