"""Shared pieces of the kernel harnesses (C01-C05): occurrence monitor and a
tiny program interpreter over the real onl.sim kernel."""
import random

from symx import (sym_num, sym_int, check, obs, cover, eq, ge, lex_lt, fail, HarnessError)


def sort_of(sorts, i):
    """'int' | 'real' | 'mixed' -> sort of the i-th numeric input"""
    if sorts == 'mixed':
        return 'int' if i % 2 == 0 else 'real'
    return sorts


class Occ:
    __slots__ = ('id', 'what', 'due', 'cls', 'seq', 'seen', 'void')

    def __init__(self, id, what, due, cls, seq):
        self.id, self.what, self.due, self.cls, self.seq = id, what, due, cls, seq
        self.seen = False
        self.void = False

    def key(self):
        return (self.due, self.cls, self.seq)


class Monitor:
    """Oracle of C01: every occurrence the harness causes is registered with
    its due-time term, class (0 = urgent: process start, interrupt delivery,
    numeric until-stop; 1 = normal) and trigger sequence number.  When one is
    observed to take effect, it must be at env.now == due and it must precede
    (lexicographically by (due, class, seq)) every occurrence that was already
    triggered and has not taken effect yet."""

    def __init__(self, env, tag='c01'):
        self.env = env
        self.tag = tag
        self.seq = 0
        self.occs = []
        self.last_now = env.now
        self.ties = 0

    def trig(self, what, due, cls):
        self.seq += 1
        o = Occ(len(self.occs), what, due, cls, self.seq)
        self.occs.append(o)
        return o

    def seen(self, o):
        env = self.env
        t = self.tag
        check(t + '.once', not o.seen, o.what)
        check(t + '.time', eq(env.now, o.due), o.what)
        check(t + '.monotonic', ge(env.now, self.last_now))
        self.last_now = env.now
        for p in self.occs:
            if p is o or p.seen or p.void:
                continue
            check(t + '.order', lex_lt(o.key(), p.key()), (o.what, p.what))
        o.seen = True
        obs('occ', o.what, env.now)

    def probe(self, o):
        def cb(event):
            self.seen(o)
        return cb

    def finish(self):
        for o in self.occs:
            if not o.void:
                check(self.tag + '.all-seen', o.seen, o.what)


def gen_programs(rng, nprocs, max_occ, ops, nshared=1):
    """Random program shape: list of scripts; script = list of instruction tuples. Processes 0..top-1 are started by
    the harness at t=0, the others are spawned by an 'S' instruction. Every started process gets 1-3 instructions;
    the number of timeouts (the symbolic timing variables, which drive the path count) is bounded by max_occ - 3."""
    max_t = max(2, max_occ - 3)
    while True:
        top = rng.randint(1, min(3, nprocs))
        scripts = [[] for _ in range(nprocs)]
        spawned, live, nt = set(), list(range(top)), 0
        order = list(range(top))
        for p in order:
            for _ in range(rng.randint(1, 3)):
                op = rng.choice(ops)
                if op == 'T':
                    if nt >= max_t:
                        continue
                    nt += 1
                    scripts[p].append(('T',))
                elif op == 'S':
                    cand = [c for c in range(top, nprocs) if c not in spawned]
                    if not cand:
                        continue
                    c = cand[0]
                    spawned.add(c)
                    live.append(c)
                    order.append(c)
                    scripts[p].append(('S', c))
                elif op == 'I':
                    others = [q for q in live if q != p]
                    if others:
                        scripts[p].append(('I', rng.choice(others)))
                elif op == 'E':
                    scripts[p].append(('E', rng.randrange(nshared)))
                elif op == 'W':
                    scripts[p].append(('W', rng.randrange(nshared)))
                elif op == 'J':
                    others = [q for q in live if q != p]
                    if others:
                        scripts[p].append(('J', rng.choice(others)))
        flat = [i for sc in scripts for i in sc]
        if nt >= 2 and len(flat) >= 3:
            return {'top': top, 'scripts': [[list(i) for i in sc] for sc in scripts]}
