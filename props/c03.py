"""C03 -- runs are reproducible and unaffected by where they are stopped and resumed."""
import os
import sys
import json
import random
import subprocess

from symx import (sym_num, sym_int, check, obs, cover, eq, ne, ge, le, lt, gt, fail, And, Or, Not, smax, smin)
from props.kcommon import sort_of, gen_programs
from props.c01 import run_program, CORE_SHAPES

PROPERTY = 'C03'
INF = float('inf')


class Recorder:
    """same interface as kcommon.Monitor, but only records what took effect when"""

    def __init__(self, env):
        self.env = env
        self.entries = []
        self.seq = 0

    class Occ:
        def __init__(self, id, what):
            self.id, self.what, self.void, self.nseen = id, what, False, 0

    def trig(self, what, due, cls):
        self.seq += 1
        return Recorder.Occ(self.seq, what)

    def seen(self, o):
        o.nseen += 1
        self.entries.append((o.what, self.env.now))

    def probe(self, o):
        def cb(ev):
            self.seen(o)
        return cb


def exec_plan(env, plan, rec, procs, shared, tag):
    """returns False if the run raised something the API does not document"""
    for st in plan:
        kind = st[0]
        n0 = len(rec.entries)
        if kind == 'until':
            c = st[1]
            before = env.now
            try:
                env.run(until=c)
            except ValueError:
                check('c03.until-refused-only-if-not-in-future', le(c, before), c)
                cover('until-refused')
                continue
            check('c03.until-accepted-only-if-in-future', gt(c, before), c)
            check('c03.until-now', eq(env.now, c), c)
            for (what, t) in rec.entries[n0:]:
                check('c03.until-only-strictly-earlier', lt(t, c), (what, c))
            check('c03.until-nothing-due-earlier-left', env.peek() == INF or ge(env.peek(), c), c)
            cover('until-stop')
        elif kind == 'event':
            ev = procs.get(st[1]) if st[2] == 'proc' else (shared[st[1]] if st[1] < len(shared) else None)
            if ev is None:
                continue
            was = ev.processed
            mark = {}
            if not was:
                ev.callbacks.append(lambda e: mark.setdefault('t', env.now))
            try:
                r = env.run(until=ev)
            except RuntimeError:
                # documented: no events left and the until-event was not triggered
                check('c03.until-event-runtimeerror-only-if-untriggered', not ev.triggered and env.peek() == INF)
                cover('until-event-never')
                continue
            check('c03.until-event-processed', ev.processed)
            check('c03.until-event-value', r is ev.value or r == ev.value)
            if not was and 't' in mark:
                check('c03.until-event-returns-at-its-instant', eq(env.now, mark['t']))
            cover('until-event')
        elif kind == 'step':
            for _ in range(st[1]):
                if env.peek() == INF:
                    break
                env.step()
            cover('single-steps')
    env.run()
    return True


def h_split(cfg):
    from onl.sim import Environment, Interrupt
    shape, sorts, plan = cfg['shape'], cfg['sorts'], cfg['plan']
    delays = {}
    traces = []
    for variant in ('single', 'split', 'single-again'):
        env = Environment()
        rec = Recorder(env)
        procs, shared = run_program(env, rec, shape, sorts, Interrupt, delays=delays)
        try:
            if variant == 'split':
                exec_plan(env, plan, rec, procs, shared, 'c03')
            else:
                env.run()
        except Exception as ex:  # noqa
            fail('no-raise', '%s: %s: %s' % (variant, type(ex).__name__, ex))
            return
        traces.append(rec.entries)
    a, b, c = traces
    check('c03.split-same-length', len(a) == len(b), (len(a), len(b)))
    check('c03.rerun-same-length', len(a) == len(c), (len(a), len(c)))
    for x, y in zip(a, b):
        check('c03.split-same-order', x[0] == y[0], (x[0], y[0]))
        check('c03.split-same-times', eq(x[1], y[1]), x[0])
    for x, y in zip(a, c):
        check('c03.rerun-same-order', x[0] == y[0], (x[0], y[0]))
        check('c03.rerun-same-times', eq(x[1], y[1]), x[0])
    for x in a:
        obs('t', x[0], x[1])
    if len(a) >= 2:
        cover('nontrivial')


def h_initial(cfg):
    """Environment(initial_time=tau), run(until=c): ValueError iff c <= tau; otherwise returns with now == c"""
    from onl.sim import Environment
    base = cfg.get('base', 0)
    if cfg.get('fgrid'):
        # binary floats on a decimal grid: run(until=c) must stop at c itself, not at now + (c - now)
        from symx import choice
        tau = [0.1, 0.2, 0.3, 0.7][choice('tau', 4)]
        d = [0.1, 0.2, 0.6, 5.0][choice('d', 4)]
        cover('float-grid')
    elif base:
        # huge integer clock: everything concrete except which small delay is chosen (the point is exact integer instants)
        from symx import choice
        tau = base
        d = choice('d', 6)
    else:
        tau = sym_num('tau', cfg['sorts'], 0)
        d = sym_num('d', cfg['sorts'], 0)
    env = Environment(initial_time=tau)
    log = []

    def p():
        yield env.timeout(d)
        log.append(env.now)

    env.process(p())
    c = base + cfg['c']
    if cfg.get('fgrid'):
        from symx import choice
        c = [0.8, 0.9, 1.1, 1.3][choice('c', 4)]
    try:
        env.run(until=c)
    except ValueError:
        check('c03.until-refused-only-if-not-in-future', le(c, tau))
        cover('until-refused')
        cover('nontrivial')
        return
    if cfg.get('fgrid'):
        # concrete binary floats: exact comparisons (the tolerant comparators are for replays of rational models)
        check('c03.until-accepted-only-if-in-future', c > tau)
        check('c03.until-now', env.now == c, repr(env.now))
        if log:
            check('c03.until-only-strictly-earlier', log[0] < c, repr(log[0]))
        else:
            check('c03.until-nothing-due-earlier-left', env.peek() >= c, repr(env.peek()))
        cover('nontrivial')
        return
    check('c03.until-accepted-only-if-in-future', gt(c, tau))
    check('c03.until-now', eq(env.now, c))
    if log:
        check('c03.until-only-strictly-earlier', lt(tau + d, c))
    else:
        check('c03.until-nothing-due-earlier-left', ge(tau + d, c))
    cover('nontrivial')
    obs('now', env.now)


def h_abort(cfg):
    """a run(until=...) that is left through the failure of a process (which run() must raise) leaves nothing behind: the
    driver catches the failure and goes on with the next run(until=...), which stops where it was asked to"""
    from onl.sim import Environment
    traces = []
    sort = cfg['sorts']
    d = [sym_num('d%d' % i, sort, 0, None, True) for i in range(2)]
    tb = sym_num('tb', sort, 0)
    dw = sym_num('dw', sort, 0)
    d2 = [sym_num('e%d' % i, sort, 0, None, True) for i in range(2)]
    stops = cfg['stops']
    for variant in ('single', 'split'):
        env = Environment()
        log = []

        def ticker():
            for k in range(3):
                yield env.timeout(d[k % 2])
                log.append(('tick', env.now))

        def bad():
            yield env.timeout(tb)
            raise Boom(7)

        env.process(ticker())
        if cfg.get('tickers', 1) > 1:
            def ticker2():
                for k in range(3):
                    yield env.timeout(d2[k % 2])
                    log.append(('tock', env.now))
            env.process(ticker2())
        env.process(bad())
        job = None
        if 'proc' in stops:
            def work():
                yield env.timeout(dw)
                return 'done'
            job = env.process(work())
        plan = [stops[-1]] if variant == 'single' else list(stops)
        if cfg.get('abandon') and variant == 'single':
            plan = []          # reference: no stop at all, just run() (continued after the failure)
        for c in plan:
            for _ in range(3):
                try:
                    if c == 'proc':
                        r = env.run(until=job)
                        check('c03.until-event-value', r == 'done', repr(r))
                    else:
                        if not gt(c, env.now):
                            break
                        env.run(until=c)
                        check('c03.until-now', eq(env.now, c), ('after an aborted run', c))
                    break
                except Boom:
                    log.append(('failure', env.now))
                    cover('run-left-by-a-failure')
                    if cfg.get('abandon'):
                        break          # the stop is given up: nothing of it may remain (the clock must not be carried there later)
                except Exception as ex:  # noqa
                    fail('no-raise', '%s: %s: %s' % (variant, type(ex).__name__, ex))
                    return
        for _ in range(3):
            try:
                env.run()
                break
            except Boom:
                log.append(('failure', env.now))       # (the failure may also surface here; the run is continued all the same)
            except Exception as ex:  # noqa
                fail('no-raise', '%s: final run: %s: %s' % (variant, type(ex).__name__, ex))
                return
        log.append(('end', env.now))        # where the clock stands once nothing is left to do
        traces.append(log)
    a_, b_ = traces
    check('c03.split-same-length', len(a_) == len(b_), ([x[0] for x in a_], [x[0] for x in b_]))
    for x, y in zip(a_, b_):
        check('c03.split-same-order', x[0] == y[0], (x[0], y[0]))
        check('c03.split-same-times', eq(x[1], y[1]), x[0])
    cover('nontrivial')


def h_net(cfg):
    """network scenario generator -> port -> wire -> sink under a split plan"""
    from onl.sim import Environment
    from onl.packet import DistPacketGenerator, PacketSink, Packet
    from onl.netdev import Port, Wire
    tape = {}

    def draw(name, i, sort, lo=0):
        k = (name, i)
        if k not in tape:
            tape[k] = sym_num('%s%d' % (name, i), sort, lo)
        return tape[k]

    traces = []
    for variant in ('single', 'split'):
        env = Environment()
        cnt = {'g': 0, 's': 0, 'w': 0}

        def gaps():
            i = cnt['g']
            cnt['g'] += 1
            return draw('g', i, cfg['sorts']) if i < cfg['n'] else INF

        def sizes():
            i = cnt['s']
            cnt['s'] += 1
            return draw('s', i, 'int', 1) if i < cfg['n'] else 1

        def wd():
            i = cnt['w']
            cnt['w'] += 1
            return draw('w', i, cfg['sorts'])

        log = []

        class Rec:
            def put(self, p):
                log.append((p.packet_id, env.now))
        gen = DistPacketGenerator(env, 'G', gaps, sizes, flow_id=0)
        port = Port(env, 8, None, False, 'p')
        wire = Wire(env, wd)
        gen.out, port.out, wire.out = port, wire, Rec()
        try:
            if variant == 'split':
                for st in cfg['plan']:
                    if st[0] == 'until':
                        try:
                            env.run(until=st[1])
                            check('c03.until-now', eq(env.now, st[1]))
                        except ValueError:
                            pass
                    else:
                        for _ in range(st[1]):
                            if env.peek() != INF:
                                env.step()
            while env.peek() != INF:
                env.step()
        except Exception as ex:  # noqa
            fail('no-raise', '%s: %s: %s' % (variant, type(ex).__name__, ex))
            return
        traces.append(log)
    a, b = traces
    check('c03.split-same-length', len(a) == len(b) and len(a) == cfg['n'], (len(a), len(b)))
    for x, y in zip(a, b):
        check('c03.split-same-order', x[0] == y[0])
        check('c03.split-same-times', eq(x[1], y[1]))
    for x in a:
        obs('sunk', x[0], x[1])
    cover('nontrivial')
    cover('network-scenario')


def h_netmon(cfg):
    """network scenario with never-ending samplers (scheduler Monitor, PortMonitor): run(until=T) in one go
    versus step()s / earlier stops followed by run(until=T)"""
    from onl.sim import Environment
    from onl.packet import DistPacketGenerator
    from onl.netdev import Port, PortMonitor
    from onl.scheduler import SP, Monitor
    tape = {}
    T = cfg['T']

    def draw(name, i, sort, lo=0):
        k = (name, i)
        if k not in tape:
            tape[k] = sym_num('%s%d' % (name, i), sort, lo)
        return tape[k]

    traces = []
    for variant in ('single', 'split'):
        env = Environment()
        cnt = {'g': 0, 's': 0}

        def gaps():
            i = cnt['g']
            cnt['g'] += 1
            return draw('g', i, cfg['sorts']) if i < cfg['n'] else INF

        def sizes():
            i = cnt['s']
            cnt['s'] += 1
            return draw('s', i, 'int', 1) if i < cfg['n'] else 1

        log = []

        class Rec:
            def put(self, p):
                log.append(('sunk', p.packet_id, env.now))
        gen = DistPacketGenerator(env, 'G', gaps, sizes, flow_id=0)
        sched = SP(env, 8, {0: 1})
        port = Port(env, 8, None, False, 'p')
        gen.out, sched.out, port.out = sched, port, Rec()
        class _NoSamples:
            sizes, sizes_byte = {}, []
        mon = pm = None
        if cfg.get('samplers', 'both') in ('both', 'sched'):
            mon = Monitor(env, sched, lambda: cfg['interval'], service_included=True)
        if cfg.get('samplers', 'both') in ('both', 'port'):
            pm = PortMonitor(env, port, lambda: cfg['interval'], pkt_in_service_included=True)
            env.process(pm.run())
        try:
            if variant == 'split':
                for st in cfg['plan']:
                    if st[0] == 'until':
                        try:
                            env.run(until=st[1])
                        except ValueError:
                            pass
                    else:
                        for _ in range(st[1]):
                            # single steps only inside the horizon of the uninterrupted run(until=T)
                            if env.peek() != INF and env.peek() < T:
                                env.step()
            if env.now < T:
                env.run(until=T)
        except Exception as ex:  # noqa
            fail('no-raise', '%s: %s: %s' % (variant, type(ex).__name__, ex))
            return
        traces.append((log, [list(v) for _, v in sorted(mon.sizes.items())] if mon else [],
                       list(pm.sizes) if pm else [], list(pm.sizes_byte) if pm else []))
    a, b = traces
    check('c03.split-same-length', len(a[0]) == len(b[0]), (len(a[0]), len(b[0])))
    for x, y in zip(a[0], b[0]):
        check('c03.split-same-order', x[1] == y[1])
        check('c03.split-same-times', eq(x[2], y[2]))
    check('c03.split-same-monitor-samples', len(a[1]) == len(b[1]) and all(len(u) == len(v) for u, v in zip(a[1], b[1])),
          ([len(u) for u in a[1]], [len(u) for u in b[1]]))
    for u, v in zip(a[1], b[1]):
        for x, y in zip(u, v):
            check('c03.split-same-monitor-samples', eq(x, y))
    check('c03.split-same-port-samples', len(a[2]) == len(b[2]), (len(a[2]), len(b[2])))
    for x, y in zip(a[2], b[2]):
        check('c03.split-same-port-samples', eq(x, y))
    for x, y in zip(a[3], b[3]):
        check('c03.split-same-port-samples', eq(x, y))
    cover('nontrivial')
    cover('network-scenario')
    obs('samples', len(a[2]), [len(u) for u in a[1]])


class Boom(Exception):
    pass


def h_untilev(cfg):
    """run(until=<event>) for the event kinds the kernel offers: a condition (its value must be returned), and an
    event that fails while a process (registered before or after the run() call) waits on it and handles it"""
    from onl.sim import Environment
    from onl.sim.events import ConditionValue
    sorts, what = cfg['sorts'], cfg['what']
    d = [sym_num('d%d' % i, sort_of(sorts, i), 0) for i in range(3)]
    v = [sym_int('v%d' % i) for i in range(2)]
    traces = []
    for variant in ('single', 'split'):
        env = Environment()
        log = []
        if what in ('and', 'or'):
            a, b = env.timeout(d[0], value=v[0]), env.timeout(d[1], value=v[1])
            proc_done = {}

            def other():
                yield env.timeout(d[2])
                log.append(('other', env.now))
            env.process(other())
            cond = (a & b) if what == 'and' else (a | b)
            try:
                if variant == 'split':
                    r = env.run(until=cond)
                    check('c03.until-event-processed', cond.processed)
                    check('c03.until-condition-returns-its-value', isinstance(r, ConditionValue) and r is cond.value,
                          type(r).__name__)
                    if isinstance(r, ConditionValue):
                        exp_now = smax(d[0], d[1]) if what == 'and' else smin(d[0], d[1])
                        check('c03.until-event-returns-at-its-instant', eq(env.now, exp_now))
                        keys = list(r.keys())
                        check('c03.until-condition-value-entries', all(k is a or k is b for k in keys) and
                              (what == 'or' or len(keys) == 2) and len(keys) >= 1)
                        for k in keys:
                            check('c03.until-condition-value-entries', eq(r[k], v[0] if k is a else v[1]))
                    cover('until-condition')
                env.run()
            except Exception as ex:  # noqa
                fail('no-raise', '%s: %s: %s' % (variant, type(ex).__name__, ex))
                return
        else:
            E = env.event()

            valobj = Boom(v[0])       # 'excvalue': an exception instance used as an ordinary value of a successful event

            def failer():
                yield env.timeout(d[0])
                if what == 'excvalue':
                    E.succeed(valobj)
                else:
                    E.fail(Boom(v[0]))
                log.append(('failed', env.now))

            def waiter():
                yield env.timeout(d[1])
                log.append(('waiting', env.now))
                try:
                    yield E
                    log.append(('resumed-ok', env.now))
                except Boom as e:
                    log.append(('handled', env.now, e.args[0]))
                yield env.timeout(d[2])
                log.append(('waiter-done', env.now))

            env.process(failer())
            env.process(waiter())
            try:
                if variant == 'split' and what == 'excvalue':
                    try:
                        r = env.run(until=E)
                        check('c03.until-event-value', r is valobj, type(r).__name__)
                        check('c03.until-event-returns-at-its-instant', eq(env.now, d[0]))
                        cover('until-event-with-exception-object-as-value')
                    except Boom:
                        fail('c03.until-event-value', 'run(until=event) raised the value of a successful event')
                elif variant == 'split':
                    try:
                        env.run(until=E)
                        fail('c03.until-failed-event-raises', 'returned normally')
                    except Boom as e:
                        check('c03.until-failed-event-raises', eq(e.args[0], v[0]))
                        check('c03.until-event-returns-at-its-instant', eq(env.now, d[0]))
                        cover('until-failed-event')
                for _ in range(3):
                    try:
                        env.run()
                        break
                    except Boom:
                        # nobody had registered on the event when it was processed: the unhandled failure surfaces from
                        # run() (in both variants); the simulation itself can be continued
                        cover('unhandled-failure-surfaced')
            except Exception as ex:  # noqa
                fail('no-raise', '%s: %s: %s' % (variant, type(ex).__name__, ex))
                return
        traces.append(log)
    a_, b_ = traces
    check('c03.split-same-length', len(a_) == len(b_), ([x[0] for x in a_], [x[0] for x in b_]))
    for x, y in zip(a_, b_):
        check('c03.split-same-order', x[0] == y[0], (x[0], y[0]))
        check('c03.split-same-times', eq(x[1], y[1]), x[0])
    for x in a_:
        obs('t', x[0], x[1])
    cover('nontrivial')


def h_hubnet(cfg):
    """hub with string element ids: the order in which one packet reaches the endpoints within an instant is part of the
    observable trace (compared across interpreter processes with different string-hash seeds)"""
    from onl.sim import Environment
    from onl.packet import Packet
    from onl.netdev import Hub
    env = Environment()
    order = []

    class End:
        def __init__(self, name):
            self.element_id = name
            self.out = None

        def put(self, p):
            order.append((self.element_id, p.packet_id, env.now))

    names = cfg['names']
    ends = [End(n) for n in names]
    hub = Hub(env, ends)

    def src():
        for k in range(cfg['n']):
            yield env.timeout(sym_num('g%d' % k, 'int', 0))
            hub.put(Packet(env.now, sym_int('s%d' % k, 1), k, src=names[k % len(names)]))

    env.process(src())
    try:
        env.run()
    except Exception as ex:  # noqa
        fail('no-raise', '%s: %s' % (type(ex).__name__, ex))
        return
    check('c03.hub-deliveries', len(order) == cfg['n'] * (len(names) - 1))
    for o in order:
        obs('deliv', o[0], o[1], o[2])
    cover('nontrivial')


HARNESSES = {'abort': h_abort, 'hubnet': h_hubnet, 'untilev': h_untilev, 'split': h_split, 'initial': h_initial, 'net': h_net, 'netmon': h_netmon}

PLANS = [
    [['until', 1]], [['until', 2], ['until', 3]], [['step', 1], ['until', 2]], [['step', 3]],
    [['event', 0, 'proc']], [['event', 1, 'proc'], ['until', 2]], [['until', 1], ['event', 0, 'proc'], ['step', 2]],
    [['event', 0, 'shared']], [['until', 2], ['until', 1]], [['step', 2], ['event', 1, 'proc']],
]


def _split_jobs(tier, seed):
    rng = random.Random(1500 + int(seed))
    shapes = list(CORE_SHAPES)
    for _ in range(6 if tier == 'quick' else 60):
        shapes.append(gen_programs(rng, 3, 7 if tier == 'quick' else 8, ['T', 'T', 'T', 'S', 'I', 'E', 'W', 'J']))
    js = []
    for si, sh in enumerate(shapes):
        nT = sum(1 for s in sh['scripts'] for i in s if i[0] == 'T')
        plans = PLANS if tier != 'quick' else [PLANS[(si + j) % len(PLANS)] for j in range(3)]
        for pi, plan in enumerate(plans):
            js.append({'harness': 'split', 'weight': 4 ** nT,
                       'cfg': {'shape': sh, 'sorts': ('int', 'real', 'mixed')[(si + pi) % 3], 'plan': plan},
                       'opts': {'max_seconds': 120}})
    return js


def jobs(tier, seed):
    js = _split_jobs(tier, seed)
    for sorts in ('int', 'real'):
        for c in (0, 1, 2):
            js.append({'harness': 'initial', 'cfg': {'sorts': sorts, 'c': c}})
    # integer clocks beyond 2**53 (e.g. nanosecond timestamps): integer instants must stay exact
    for c in (1, 3):
        js.append({'harness': 'initial', 'cfg': {'sorts': 'int', 'c': c, 'base': 2 ** 53}})
    js.append({'harness': 'initial', 'cfg': {'sorts': 'int', 'c': 0, 'fgrid': True}})
    for plan in ([['until', 1], ['until', 2]], [['step', 2], ['until', 3]], [['until', 2], ['step', 3]]):
        js.append({'harness': 'net', 'cfg': {'n': 2, 'sorts': 'int', 'plan': plan}, 'weight': 300})
    js.append({'harness': 'hubnet', 'cfg': {'names': ['alpha', 'bravo', 'charlie', 'delta-4', 'e'], 'n': 2}, 'weight': 5})
    for stops in ([2, 4], [2, 'proc'], [1, 2, 5]):
        js.append({'harness': 'abort', 'cfg': {'stops': stops, 'sorts': 'int'}, 'weight': 30})
    js.append({'harness': 'abort', 'cfg': {'stops': [1000], 'sorts': 'int', 'abandon': True}, 'weight': 30})
    js.append({'harness': 'abort', 'cfg': {'stops': [2], 'sorts': 'int', 'abandon': True, 'tickers': 2}, 'weight': 60, 'opts': {'max_paths': 6000}})
    for what in ('and', 'or', 'fail', 'excvalue'):
        for sorts in ('int', 'real'):
            js.append({'harness': 'untilev', 'cfg': {'what': what, 'sorts': sorts}, 'weight': 20})
    combos = [([['until', 2], ['step', 30]], 'sched'), ([['step', 40]], 'port'), ([['step', 12], ['until', 3]], 'both')]
    if tier != 'quick':
        combos += [([['step', 40]], 'sched'), ([['until', 2], ['step', 30]], 'port'), ([['step', 6]], 'both'),
                   ([['until', 2], ['step', 30]], 'both')]
    for plan, smp in combos:
        if True:
            js.append({'harness': 'netmon', 'cfg': {'n': 2, 'sorts': 'int', 'plan': plan, 'T': 8, 'interval': 1,
                                                    'samplers': smp}, 'weight': 300})
    return js


def extra_checks(tier, seed):
    """obligation (3): the whole-bound symbolic summary of a job (every path condition with its trace terms)
    is identical in fresh interpreters under different PYTHONHASHSEED values"""
    here = os.path.dirname(os.path.dirname(os.path.abspath(__file__)))
    js = [j for j in _split_jobs(tier, seed) if j['weight'] <= 300][: (4 if tier == 'quick' else 12)]
    js.append({'harness': 'hubnet', 'cfg': {'names': ['alpha', 'bravo', 'charlie', 'delta-4', 'e'], 'n': 2}, 'weight': 1})
    seeds = ['0', str(1 + (int(seed) * 7919 + 13) % 4000000)] + (['12345', '987654321'] if tier != 'quick' else [])
    procs = []
    for ji, j in enumerate(js):
        for hs in seeds:
            env = dict(os.environ)
            env['PYTHONHASHSEED'] = hs
            env['PYTHONPATH'] = here + os.pathsep + os.environ.get('VERIF_REPO', '/repo')
            p = subprocess.Popen(['python3-vt', '-m', 'symx.summary', 'props.c03', j['harness'], json.dumps(j['cfg'])],
                                 stdout=subprocess.PIPE, stderr=subprocess.PIPE, env=env, cwd=here, text=True)
            procs.append((ji, hs, p))
    res = {}
    out = []
    for ji, hs, p in procs:
        so, se = p.communicate()
        try:
            res.setdefault(ji, {})[hs] = json.loads(so.strip().splitlines()[-1])
        except Exception:  # noqa
            out.append({'label': 'c03.hash-seed-summary', 'ok': None, 'info': 'summary run failed: ' + se[-300:]})
    for ji, d in res.items():
        dg = {v['digest'] for v in d.values()}
        ok = len(dg) == 1 and all(v['exhaustive'] for v in d.values())
        out.append({'label': 'c03.hash-seed-summary', 'ok': ok if len(dg) > 1 or ok else None,
                    'info': {'cfg': js[ji]['cfg'], 'digests': {k: v['digest'][:16] for k, v in d.items()},
                             'paths': {k: v['paths'] for k, v in d.items()}}})
    return out


META = {
    'rule': 'one case = one feasible path of (program, split plan): an order-type of the symbolic delays against each other and '
            'against the concrete stop instants; non-trivial = at least two occurrences in the trace',
    'required_labels': ['c03.split-same-monitor-samples', 'c03.split-same-port-samples', 'c03.split-same-order', 'c03.split-same-times', 'c03.rerun-same-times', 'c03.until-now',
                        'c03.until-only-strictly-earlier', 'c03.until-refused-only-if-not-in-future',
                        'c03.until-event-value'],
    'required_covers': ['nontrivial', 'until-stop', 'until-refused', 'until-event', 'single-steps', 'network-scenario',
                        'until-condition', 'until-failed-event'],
    'bounds': {'quick': '15 kernel program shapes (<= 3 processes, <= 7 occurrences) x 3 of 10 split plans (run(until=1|2|3), run(until=process / '
                        'shared event), step() x m, in sequences of <= 3) + generator->port->wire->sink (2 packets) under 3 plans; initial_time '
                        'symbolic; summaries of 4 jobs compared under 2 hash seeds; run(until=number) on a concrete binary-float grid with exact comparisons; an exception instance as the value of a successful until-event',
               'thorough': '39 shapes x 10 plans; 12 jobs x 4 hash seeds'},
    'assumptions': ['numeric stop instants are concrete (Environment.run calls float()); the program delays around them are symbolic',
                    'PYTHONHASHSEED is not a solver variable: whole-bound symbolic summaries are compared for a few seeds (sampled axis)'],
    'stubs': [],
    'outside': ['all hash seeds; programs beyond the bound'],
}

MANIFEST = {
    'level_text': 'Bounded model checking by symbolic execution: the same symbolic program is run on fresh kernels uninterrupted, '
                  'under a split plan and once more, inside one symbolic run, and trace equality (labels and time terms) plus the '
                  'run(until) contract are proved for every order-type of the delays against the stop instants.',
    'level_note': 'Trusted: z3, symx proxies (validated by concrete witness replay under /venv/bin/python = another interpreter); the '
                  'hash-seed clause is decided only for a handful of seeds by comparing whole-bound symbolic summaries (not a solver axis).',
}
