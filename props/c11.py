"""C11 -- token buckets: conformance, no needless delay, two-rate colours."""
from fractions import Fraction

from symx import (sym_num, sym_int, check, obs, cover, eq, ge, le, lt, gt, fail, Ite, smax, smin,
                  And, Or, Not, Implies, ssum)
from props.netcommon import Rec, mk_packet

PROPERTY = 'C11'


def _source(env, Packet, dev, n, sort, entries, bursts=None, twin=None, precolour=False):
    def source():
        for k in range(n):
            if not (bursts and bursts[k]):
                yield env.timeout(sym_num('g%d' % k, sort, 0))
            size = sym_int('s%d' % k, 1)
            pkt = mk_packet(Packet, env.now, size, k)
            if precolour:
                pkt.color = ('red', 'yellow', 'green')[k % 3]     # coloured by an earlier meter: this meter colours it anew
            entries.append((pkt, env.now))
            dev.put(pkt)
            if twin is not None:
                # a second shaper with the same parameters in the same environment gets a copy of every packet
                twin.put(mk_packet(Packet, env.now, size, 1000 + k))
    return source


def _same(rec, twin_rec):
    a = [(p.packet_id, t, getattr(p, 'color', None)) for p, t in rec.log]
    b = [(p.packet_id - 1000, t, getattr(p, 'color', None)) for p, t in twin_rec.log]
    check('c11.instances-independent', [(x[0], x[2]) for x in a] == [(x[0], x[2]) for x in b], (a, b))
    if len(a) == len(b):
        for x, y in zip(a, b):
            check('c11.instances-independent', eq(x[1], y[1]), x[0])
    cover('two-instances')


def h_tb(cfg):
    from onl.sim import Environment
    from onl.packet import Packet
    from onl.netdev import TokenBucket
    env = Environment()
    rate, bucket, peak, n, sort = cfg['rate'], cfg['bucket'], cfg['peak'], cfg['n'], cfg['sorts']
    tb = TokenBucket(env, rate, bucket, peak=peak)
    rec = Rec(env)
    tb.out = rec
    entries = []
    twin = None
    if cfg.get('twin'):
        twin = TokenBucket(env, rate, bucket, peak=peak)
        twin_rec = Rec(env)
        twin.out = twin_rec
    env.process(_source(env, Packet, tb, n, sort, entries, cfg.get('burst'), twin)())
    try:
        env.run()
    except Exception as ex:  # noqa
        fail('no-raise', '%s: %s' % (type(ex).__name__, ex))
        return
    check('c11.nothing-lost-fifo', len(rec.log) == n and all(a is b for (a, _), (b, _) in zip(rec.log, entries)))
    if len(rec.log) != n:
        return
    if twin is not None:
        _same(rec, twin_rec)
    B = bucket          # tokens (bytes) right after the previous debit
    t_prev = 0          # previous debit instant (bucket initially full at t=0)
    out_prev = None
    debits = []
    waited = False
    for (pkt, a), (_, out) in zip(entries, rec.log):
        h = a if out_prev is None else smax(a, out_prev)
        Bh = smin(bucket, B + Fraction(rate, 8) * (h - t_prev))
        short = smax(0, pkt.size - Bh)
        t = h + short * Fraction(8, rate)
        exp_out = t + (Fraction(8) * pkt.size / peak if peak else 0)
        check('c11.release-instant', eq(out, exp_out), pkt.packet_id)
        B = smax(Bh - pkt.size, 0)
        t_prev = t
        out_prev = out
        debit = out - (Fraction(8) * pkt.size / peak if peak else 0)
        debits.append((debit, pkt.size))
        obs('out', pkt.packet_id, out)
    # pairwise conformance over the observed debit instants
    for i in range(n):
        acc = 0
        for j in range(i, n):
            acc = acc + debits[j][1]
            check('c11.conformance', le(acc, smax(bucket, debits[i][1]) + Fraction(rate, 8) * (debits[j][0] - debits[i][0])), (i, j))
    if peak:
        for i in range(1, n):
            check('c11.peak-spacing', ge(rec.log[i][1] - rec.log[i - 1][1], Fraction(8) * entries[i][0].size / peak), i)
    cover('nontrivial')


def h_trtb(cfg):
    from onl.sim import Environment
    from onl.packet import Packet
    from onl.netdev import TwoRateTokenBucket
    env = Environment()
    cir, cbs, pir, pbs, n, sort = cfg['cir'], cfg['cbs'], cfg['pir'], cfg['pbs'], cfg['n'], cfg['sorts']
    tb = TwoRateTokenBucket(env, cir, cbs, pir, pbs)
    pub = [(tb.current_bucket_commit, tb.update_time)]
    colors = []

    def on_dep(pkt):
        pub.append((tb.current_bucket_commit, tb.update_time))
        colors.append(pkt.color)

    rec = Rec(env, on_put=on_dep)
    tb.out = rec
    entries = []
    twin = None
    if cfg.get('twin'):
        twin = TwoRateTokenBucket(env, cir, cbs, pir, pbs)
        twin_rec = Rec(env)
        twin.out = twin_rec
    env.process(_source(env, Packet, tb, n, sort, entries, cfg.get('burst'), twin, bool(cfg.get('precolour')))())
    try:
        env.run()
    except Exception as ex:  # noqa
        fail('no-raise', '%s: %s' % (type(ex).__name__, ex))
        return
    check('c11.nothing-lost-fifo', len(rec.log) == n and all(a is b for (a, _), (b, _) in zip(rec.log, entries)))
    if len(rec.log) != n:
        return
    if twin is not None:
        _same(rec, twin_rec)
    srate, sbucket = (pir, pbs) if pir else (cir, cbs)
    B = sbucket
    t_prev = 0
    out_prev = None
    greens = []
    for i, ((pkt, a), (_, out)) in enumerate(zip(entries, rec.log)):
        h = a if out_prev is None else smax(a, out_prev)
        Bh = smin(sbucket, B + Fraction(srate, 8) * (h - t_prev))
        short = smax(0, pkt.size - Bh)
        t = h + short * Fraction(8, srate)
        check('c11.tr-release-instant', eq(out, t), pkt.packet_id)
        B = smax(Bh - pkt.size, 0)
        t_prev = t
        out_prev = out
        col = colors[i]
        check('c11.tr-colour-valid', col in ('green', 'yellow', 'red'), col)
        if pir:
            c_pub, u_pub = pub[i]
            Ch = smin(cbs, c_pub + Fraction(cir, 8) * (h - u_pub))
            is_red = gt(pkt.size, Bh)
            is_yellow = And(Not(is_red), gt(pkt.size, Ch))
            is_green = And(Not(is_red), le(pkt.size, Ch))
        else:
            is_red = False
            is_yellow = gt(pkt.size, Bh)
            is_green = le(pkt.size, Bh)
        if col == 'green':
            check('c11.tr-colour', is_green, (i, col))
            greens.append((out, pkt.size))
            cover('green')
        elif col == 'yellow':
            check('c11.tr-colour', is_yellow, (i, col))
            cover('yellow')
        elif col == 'red':
            check('c11.tr-colour', is_red, (i, col))
            check('c11.tr-red-waited', gt(out, h), i)
            cover('red')
        obs('out', pkt.packet_id, out, col)
    for i in range(len(greens)):
        acc = 0
        for j in range(i, len(greens)):
            acc = acc + greens[j][1]
            check('c11.tr-green-conforms', le(acc, cbs + Fraction(cir, 8) * (greens[j][0] - greens[i][0])), (i, j))
    cover('nontrivial')


HARNESSES = {'tb': h_tb, 'trtb': h_trtb}


def jobs(tier, seed):
    js = []
    n = 3 if tier == 'quick' else 4
    for (rate, bucket) in ((8, 4), (64, 16)):
        for peak in (None, 64):
            for sort in ('int', 'real'):
                js.append({'harness': 'tb', 'weight': 10,
                           'cfg': {'rate': rate, 'bucket': bucket, 'peak': peak, 'n': n, 'sorts': sort}})
    # a peak rate below (and equal to) the token rate is a legal configuration: the spacing still applies
    js.append({'harness': 'tb', 'weight': 10, 'cfg': {'rate': 64, 'bucket': 16, 'peak': 8, 'n': n, 'sorts': 'int'}})
    js.append({'harness': 'tb', 'weight': 10, 'cfg': {'rate': 8, 'bucket': 4, 'peak': 8, 'n': n, 'sorts': 'real'}})
    js.append({'harness': 'tb', 'weight': 5,
               'cfg': {'rate': 8, 'bucket': 4, 'peak': None, 'n': n, 'sorts': 'int', 'burst': [0] + [1] * (n - 1)}})
    for (pir, pbs) in ((None, None), (16, 6), (8, 3)):
        for sort in ('int', 'real'):
            js.append({'harness': 'trtb', 'weight': 12,
                       'cfg': {'cir': 8, 'cbs': 4, 'pir': pir, 'pbs': pbs, 'n': n, 'sorts': sort}})
    js.append({'harness': 'trtb', 'weight': 5,
               'cfg': {'cir': 8, 'cbs': 4, 'pir': 16, 'pbs': 6, 'n': n, 'sorts': 'int', 'burst': [0] + [1] * (n - 1)}})
    # a peak rate below the committed rate is a legal (if odd) configuration: the peak bucket still fills at PIR
    js.append({'harness': 'trtb', 'weight': 12, 'cfg': {'cir': 16, 'cbs': 4, 'pir': 8, 'pbs': 3, 'n': 3, 'sorts': 'int'}})
    js.append({'harness': 'trtb', 'weight': 12, 'cfg': {'cir': 8, 'cbs': 4, 'pir': 16, 'pbs': 6, 'n': 3, 'sorts': 'int', 'precolour': True}})
    # bucket sizes of 0 are sizes like any other (nothing is ever saved up: every packet waits for its own tokens)
    js.append({'harness': 'trtb', 'weight': 10, 'cfg': {'cir': 8, 'cbs': 4, 'pir': 16, 'pbs': 0, 'n': 3, 'sorts': 'int'}})
    js.append({'harness': 'trtb', 'weight': 10, 'cfg': {'cir': 8, 'cbs': 0, 'pir': None, 'pbs': None, 'n': 3, 'sorts': 'int'}})
    js.append({'harness': 'tb', 'weight': 10, 'cfg': {'rate': 8, 'bucket': 0, 'peak': None, 'n': 3, 'sorts': 'int'}})
    # two shapers in one environment
    js.append({'harness': 'tb', 'weight': 10, 'cfg': {'rate': 8, 'bucket': 4, 'peak': 64, 'n': 3, 'sorts': 'int', 'twin': True}})
    js.append({'harness': 'trtb', 'weight': 10, 'cfg': {'cir': 8, 'cbs': 4, 'pir': 16, 'pbs': 6, 'n': 3, 'sorts': 'int', 'twin': True}})
    # longer workloads, few timing variables: two bursts of three
    m = 6 if tier == 'quick' else 7
    js.append({'harness': 'tb', 'weight': 40, 'opts': {'max_paths': 20000},
               'cfg': {'rate': 8, 'bucket': 4, 'peak': None, 'n': m + 1, 'sorts': 'int', 'burst': [0, 1, 1, 0, 1, 1, 1, 1][:m + 1]}})
    js.append({'harness': 'tb', 'weight': 40, 'opts': {'max_paths': 20000},
               'cfg': {'rate': 8, 'bucket': 4, 'peak': 64, 'n': 4, 'sorts': 'int', 'burst': [0, 1, 1, 1]}})
    js.append({'harness': 'trtb', 'weight': 40, 'opts': {'max_paths': 20000},
               'cfg': {'cir': 8, 'cbs': 4, 'pir': 16, 'pbs': 6, 'n': m - 1, 'sorts': 'int', 'burst': [0, 1, 1, 0, 1, 1, 1][:m - 1]}})
    return js


META = {
    'rule': 'one case = one feasible path of a shaper workload (sizes incl. > bucket, gaps incl. long idle, symbolic)',
    'required_labels': ['c11.release-instant', 'c11.conformance', 'c11.peak-spacing', 'c11.tr-release-instant',
                        'c11.tr-colour', 'c11.tr-green-conforms'],
    'required_covers': ['nontrivial', 'green', 'yellow', 'red', 'two-instances'],
    'bounds': {'quick': 'n=3 packets; (rate,bucket) in {(8,4),(64,16)}, peak in {None,64}; two-rate: CIR 8, CBS 4, (PIR,PBS) in {None,(16,6),(8,3)}; sizes Int>=1, gaps>=0 unbounded; bucket sizes of 0; PIR below CIR; two shapers side by side; two-burst workloads of 5-7 packets',
               'thorough': 'n=4'},
    'assumptions': ['two-rate green/yellow decision uses the public current_bucket_commit/update_time read at the previous '
                    'departure, refilled at CIR capped at CBS (the statement does not fix what yellow/red do to the committed bucket)'],
    'stubs': [],
    'outside': ['more packets than the bound', 'float rounding', 'rates outside the concrete grid'],
}

MANIFEST = {
    'level_text': 'Bounded model checking by symbolic execution of the real TokenBucket/TwoRateTokenBucket against a '
                  'reference shaper recurrence and the pairwise (rate, bucket) conformance inequality, for all sizes and '
                  'gaps of n-packet workloads.',
    'level_note': 'Trusted: z3, symx proxies (validated by concrete witness replay); rates/bucket sizes on a concrete dyadic grid; '
                  'workload length bounded.',
}
