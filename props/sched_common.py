"""Common scheduler harness for C12-C15 (and C08)."""
from fractions import Fraction

from symx import (sym_num, sym_int, check, obs, cover, eq, ne, ge, le, lt, gt, fail, Ite, smax, smin,
                  And, Or, Not, Implies, ssum, assume)
from props.netcommon import Rec, mk_packet, step_all, DrawStub

KINDS = ('SP', 'WFQ', 'VC', 'DRR', 'RR', 'WRR')


def make_sched(env, kind, rate, table, flow2class=None):
    """table: {flow/class id: weight|priority|vtick} (ints)."""
    from onl import scheduler as S
    kw = {}
    if flow2class is not None:
        kw['flow2class'] = flow2class
    if kind == 'SP':
        return S.SP(env, rate, dict(table), **kw)
    if kind == 'WFQ':
        return S.WFQ(env, rate, dict(table), **kw)
    if kind == 'VC':
        return S.VC(env, rate, dict(table), **kw)
    if kind == 'DRR':
        return S.DRR(env, rate, dict(table), **kw)
    if kind == 'RR':
        return S.RR(env, rate, list(table.keys()))
    if kind == 'WRR':
        return S.WRR(env, rate, dict(table))
    raise ValueError(kind)


class SchedRun:
    """Drives one scheduler with a scripted source; everything observable is
    recorded with the kernel's own order of actions."""

    def __init__(self, cfg, stepping=False, on_start=None, on_put=None, on_dep=None, after_step=None):
        from onl.sim import Environment
        from onl.packet import Packet
        self.cfg = cfg
        self.env = env = Environment()
        self.kind = cfg['kind']
        self.rate = cfg['rate']
        self.table = {int(k): v for k, v in cfg['table'].items()}
        if cfg.get('table_order'):
            # JSON object order is kept, but be explicit: the declaration order of the classes matters
            self.table = {int(k): self.table[int(k)] for k in cfg['table_order']}
        f2c = cfg.get('flow2class')
        self.f2c_map = {int(k): v for k, v in f2c.items()} if f2c else None
        flow2class = (lambda f: self.f2c_map[f]) if self.f2c_map else None
        self.sched = make_sched(env, self.kind, self.rate, self.table, flow2class)
        self.flows = cfg['flows']          # flow id of each packet
        self.burst = cfg.get('burst') or [0] * len(self.flows)
        self.n = len(self.flows)
        self.sort = cfg['sorts']
        self.arrivals = []                 # (pkt, a, burst_group)
        self.departs = []                  # (pkt, D)
        self.held = []                     # accepted, not departed
        self.on_put, self.on_dep = on_put, on_dep
        self.on_start = on_start
        self.after_step_cb = after_step
        self.action = 0
        self.ok = True
        self.in_service = None
        self.was_empty = True              # system has been empty since the last service start
        self.starts = []
        self.waiting = {}                  # flow -> [pkts] arrived, service not started
        self.rec = Rec(env, on_put=self._dep)
        if not cfg.get('no_out'):
            self.sched.out = self.rec      # ('no_out': a scheduler nobody listens to still transmits)
        # 'twin': a second instance of the same scheduler class in the same environment, fed a copy of every packet at the
        # same instant: instances share nothing, so both must behave as if alone (and the twin exactly like the first)
        self.twin = None
        if cfg.get('twin'):
            self.twin = make_sched(env, self.kind, self.rate, self.table, flow2class)
            self.twin_rec = Rec(env)
            self.twin.out = self.twin_rec
        self.Packet = Packet
        env.process(self._source())
        self.stepping = stepping

    def cls(self, pkt):
        return self.f2c_map[pkt.flow_id] if self.f2c_map else pkt.flow_id

    def _dep(self, pkt):
        self.action += 1
        self.departs.append((pkt, self.env.now))
        for i, p in enumerate(self.held):
            if p is pkt:
                del self.held[i]
                break
        else:
            fail('sched.departure-of-unknown-or-duplicate', getattr(pkt, 'packet_id', None))
        if not self.held:
            self.was_empty = True
        if self.on_dep:
            self.on_dep(pkt)
        self.check_counters('dep')

    def check_counters(self, where):
        if self.cfg.get('no_out'):
            return             # departures are not observable without a downstream recorder
        s = self.sched
        for f in sorted(set(self.flows)):
            mine = [p for p in self.held if p.flow_id == f]
            check('c12.size-counter', eq(s.size(f), len(mine)), (where, f))
            check('c12.byte-counter', eq(s.byte_size(f), ssum([p.size for p in mine])), (where, f))

    def _source(self):
        env = self.env
        group = 0
        for k in range(self.n):
            if not self.burst[k]:
                yield env.timeout(sym_num('g%d' % k, self.sort, 0))
                if k in (self.cfg.get('split_gap') or []):
                    # a second sleep, scheduled only now: at an instant it shares with a transmission end it wakes up after the
                    # packet has been delivered (the first sleep was scheduled before that transmission began and wakes up before)
                    yield env.timeout(sym_num('h%d' % k, self.sort, 0))
                group += 1
            fixed = (self.cfg.get('sizes') or {}).get(str(k))
            size = fixed if fixed is not None else sym_int('s%d' % k, self.cfg.get('smin', 1), self.cfg.get('smax'))
            # 'ctime': the creation-time field need not follow the arrival order (packets may have travelled differently)
            ctime = env.now if not self.cfg.get('ctime') else 1000 - k
            # a fresh int object per packet (ids parsed from a trace are equal, not identical; CPython caches only small ints)
            pkt = mk_packet(self.Packet, ctime, size, k, flow_id=int(str(self.flows[k])))
            self.action += 1
            self.arrivals.append((pkt, env.now, group))
            self.held.append(pkt)
            self.waiting.setdefault(self.cls(pkt), []).append(pkt)
            if self.on_put:
                self.on_put(pkt)
            self.sched.put(pkt)
            if self.twin is not None:
                self.twin.put(mk_packet(self.Packet, ctime, size, 1000 + k, flow_id=self.flows[k]))
            self.check_counters('put')

    def _after_step(self):
        cur = self.sched.packet_in_service
        if cur is not None and cur is not self.in_service:
            idle_before = self.was_empty
            self.was_empty = False
            self.starts.append((cur, self.env.now))
            if self.on_start:
                self.on_start(cur, idle_before)
            w = self.waiting.get(self.cls(cur), [])
            for i, p in enumerate(w):
                if p is cur:
                    del w[i]
                    break
        self.in_service = cur
        if self.after_step_cb:
            self.after_step_cb()

    def run(self):
        env = self.env
        if self.stepping:
            self.ok = step_all(env, self._after_step)
        else:
            try:
                env.run()
            except Exception as ex:  # noqa
                fail('no-raise', '%s: %s' % (type(ex).__name__, ex))
                self.ok = False
        return self.ok

    # --- generic obligations (C12 / C08) ------------------------------------
    def tx(self, pkt):
        return Fraction(8) * pkt.size / self.rate

    def check_all_depart_once(self, tag='c12'):
        ids = [id(p) for p, _ in self.departs]
        check(tag + '.each-once', len(ids) == len(set(ids)) and len(ids) == self.n and not self.held,
              'departed %s of %d' % ([p.packet_id for p, _ in self.departs], self.n))
        return len(ids) == self.n and len(set(ids)) == self.n

    def check_twin(self, tag='c12'):
        if self.twin is None:
            return
        mine = [(p.packet_id, D) for p, D in self.departs]
        other = [(p.packet_id - 1000, D) for p, D in self.twin_rec.log]
        check(tag + '.instances-independent', len(mine) == len(other) and all(a[0] == b[0] for a, b in zip(mine, other)),
              ([a[0] for a in mine], [b[0] for b in other]))
        if len(mine) == len(other):
            for a, b in zip(mine, other):
                check(tag + '.instances-independent', eq(a[1], b[1]), a[0])
        cover('two-instances')

    def check_fifo_per_flow(self, tag='c12'):
        for f in sorted(set(self.flows)):
            arr = [p.packet_id for p, _, _ in self.arrivals if p.flow_id == f]
            dep = [p.packet_id for p, _ in self.departs if p.flow_id == f]
            check(tag + '.per-flow-fifo', arr == dep, (f, arr, dep))

    def check_work_conserving(self, tag='c12'):
        """D_k - tx(pi(k)) == max(D_{k-1}, A_k): never idle with backlog, no overlap,
        exact transmission time (arrivals are generated in non-decreasing time order)."""
        prev = None
        for k, (pkt, D) in enumerate(self.departs):
            A = self.arrivals[k][1]
            start = A if prev is None else smax(prev, A)
            check(tag + '.work-conserving-rate-exact', eq(D - self.tx(pkt), start), k)
            prev = D
            obs('dep', pkt.packet_id, D)

    def no_tie_assumption(self):
        """restrict the claim to workloads whose arrival instants differ from each
        other (unless put in the same burst) and from every departure instant"""
        for i, (p, a, g) in enumerate(self.arrivals):
            for (q, b, h) in self.arrivals[:i]:
                if g != h:
                    assume(ne(a, b))
            for (_, D) in self.departs:
                assume(ne(a, D))


def flow_patterns(n, nflows, tier, rng):
    import itertools
    allp = [list(p) for p in itertools.product(range(nflows), repeat=n)]
    allp = [p for p in allp if len(set(p)) > 1 or n <= 2]
    if tier == 'thorough' or len(allp) <= 6:
        return allp
    core = [[i % nflows for i in range(n)], [0] * (n // 2) + [1] * (n - n // 2),
            [1] * (n // 2) + [0] * (n - n // 2)]
    rest = [p for p in allp if p not in core]
    rng.shuffle(rest)
    return core + rest[:3]
