"""C07 -- containers and stores: bounded, conservative, ordered, nothing stranded."""
import itertools
import random

from symx import (sym_num, sym_int, choice, check, obs, cover, eq, ge, le, lt, gt, fail, And, Or, Not, ssum)
from props.kcommon import sort_of

PROPERTY = 'C07'
INF = float('inf')


def _drive(env, after_step):
    from onl.sim.core import EmptySchedule
    n = 0
    try:
        while env.peek() != INF:
            env.step()
            after_step()
            n += 1
            if n > 500:
                fail('no-hang')
                return False
    except EmptySchedule:
        pass
    except Exception as ex:  # noqa
        fail('no-raise', '%s: %s' % (type(ex).__name__, ex))
        return False
    return True


def _issuer(env, ops, burst, sorts, do_op):
    def issuer():
        for k, op in enumerate(ops):
            if not burst[k]:
                yield env.timeout(sym_num('g%d' % k, sort_of(sorts, k), 0))
            do_op(k, op)
    return issuer


def h_container(cfg):
    from onl.sim import Environment, Container
    env = Environment()
    ops, sorts = cfg['ops'], cfg['sorts']
    burst = cfg.get('burst') or [0] * len(ops)
    asort = cfg.get('asort', 'int')
    from symx import assume
    grid = None
    if cfg.get('grid'):
        # concrete amounts on a grid whose neighbours differ by 1 part in 10^11 (or by 1 at 10^15): level, capacity and every
        # amount are picked from it by the solver-free choice (exact rationals / big ints, no rounding anywhere)
        from fractions import Fraction as F
        eps = F(1, 10 ** 11)
        grid = {'frac': [F(3, 10), F(3, 10) + eps, F(6, 10), F(6, 10) + eps],
                'big': [10 ** 15, 10 ** 15 + 1, 2 * 10 ** 15, 2 * 10 ** 15 + 1]}[cfg['grid']]
        L = grid[choice('L', 2)]
        C = grid[2 + choice('C', 2)]
    else:
        L = sym_num('L', asort, 0)
    if grid is not None:
        pass
    elif cfg.get('default_capacity'):
        C = INF
    else:
        C = sym_num('C', asort, 0, None, True)
        assume(le(L, C))
    try:
        c = Container(env, init=L) if cfg.get('default_capacity') else Container(env, capacity=C, init=L)
    except Exception as ex:  # noqa
        fail('no-raise', 'Container(): %s: %s' % (type(ex).__name__, ex))
        return
    reqs = []

    def do_op(k, op):
        if op in ('put', 'get'):
            a = grid[choice('m%d' % k, 2)] if grid is not None else sym_num('m%d' % k, asort, 0, None, True)
            ev = c.put(a) if op == 'put' else c.get(a)
            reqs.append({'k': k, 'kind': op, 'ev': ev, 'amount': a, 'cancelled': False, 'granted': False})
        else:
            j = op[1]
            r = reqs[j] if j < len(reqs) else None
            reqs.append({'k': k, 'kind': 'noop', 'ev': None, 'cancelled': True, 'granted': False})
            if r is not None and r['ev'] is not None and not r['ev'].triggered:
                if op[0] == 'exit':
                    r['ev'].__exit__(None, None, None)     # what leaving `with resource.put(..) as req:` does
                    cover('with-exit-pending')
                else:
                    r['ev'].cancel()
                r['cancelled'] = True
                cover('cancelled-pending')

    def after_step():
        lvl = c.level
        check('c07.level-in-range', And(ge(lvl, 0), le(lvl, C)))
        for r in reqs:
            if r['ev'] is not None and not r['granted'] and r['ev'].triggered:
                r['granted'] = True
                cover('granted')
                # first come first served within its kind: no earlier request of the kind is still pending
                for e in reqs:
                    if e['kind'] == r['kind'] and e['k'] < r['k'] and not e['granted'] and not e['cancelled']:
                        fail('c07.fcfs', '%s %d granted while %d is pending' % (r['kind'], r['k'], e['k']))
        puts = ssum([r['amount'] for r in reqs if r['kind'] == 'put' and r['granted']])
        gets = ssum([r['amount'] for r in reqs if r['kind'] == 'get' and r['granted']])
        check('c07.level-conserved', eq(lvl, L + puts - gets))
        if env.peek() == INF or env.peek() > env.now:
            pend_put = [r for r in reqs if r['kind'] == 'put' and not r['granted'] and not r['cancelled']]
            pend_get = [r for r in reqs if r['kind'] == 'get' and not r['granted'] and not r['cancelled']]
            if pend_put:
                check('c07.no-stranded-put', gt(pend_put[0]['amount'], C - lvl), pend_put[0]['k'])
                cover('pending-at-quiescence')
            if pend_get:
                check('c07.no-stranded-get', gt(pend_get[0]['amount'], lvl), pend_get[0]['k'])
                cover('pending-at-quiescence')
            check('c07.queues-match', len(c.put_queue) == len(pend_put) and len(c.get_queue) == len(pend_get))

    env.process(_issuer(env, ops, burst, sorts, do_op)())
    _drive(env, after_step)
    if len([r for r in reqs if r['kind'] != 'noop']) >= 2:
        cover('nontrivial')
    obs('level', c.level)


class FItem:
    """a store item; `truthy=False` makes it a falsy object (stores hold arbitrary items: 0, '', empty containers ...)"""

    def __init__(self, v, truthy=True):
        self.v = v
        self.truthy = truthy

    def __bool__(self):
        return self.truthy


class EqItem(FItem):
    """items that all compare equal to each other yet are distinct objects with distinct contents
    (like 1 and 1.0, or records compared by one field)"""

    def __eq__(self, other):
        return isinstance(other, EqItem)

    def __hash__(self):
        return 7


def h_store(cfg):
    from onl.sim import Environment, Store, PriorityStore, FilterStore, PriorityItem
    env = Environment()
    ops, sorts, kind = cfg['ops'], cfg['sorts'], cfg['kind']
    burst = cfg.get('burst') or [0] * len(ops)
    cls = {'store': Store, 'prio': PriorityStore, 'filter': FilterStore}[kind]
    if cfg.get('default_capacity'):
        cap = INF
        st = cls(env)
    else:
        if cfg.get('realcap'):
            cap = sym_num('cap', 'real', 1)       # the capacity is documented as a number (float('inf') by default), not an int
        else:
            cap = sym_int('cap', 1) if cfg.get('symcap', True) else cfg['cap']
        st = cls(env, capacity=cap)
    reqs = []
    held = []            # accepted, not yet delivered (insertion order)
    delivered = []
    key = {}             # id(item) -> symbolic key (priority / filter value)
    # 'twin': a second store of the same class and capacity in the same environment receiving the mirrored operations
    twin = cls(env, capacity=cap) if cfg.get('twin') else None
    treqs = []

    def twin_op(k, op, item=None, th=None):
        if twin is None:
            return
        if op == 'put':
            if kind == 'prio':
                t_item = PriorityItem(item.priority, ('twin', k))
            elif kind == 'filter':
                t_item = FItem(item.v)
            else:
                t_item = ('twin', k)
            treqs.append(twin.put(t_item))
        elif op == 'get':
            treqs.append(twin.get(lambda it, th=th: it.v >= th) if kind == 'filter' else twin.get())
        else:
            treqs.append(None)
            j = op[1]
            r = treqs[j] if j < len(treqs) else None
            if r is not None and not r.triggered:
                r.cancel()

    def do_op(k, op):
        if op == 'put':
            if kind == 'prio':
                pr = sym_int('x%d' % k)
                item = PriorityItem(pr, ('it', k))
                key[id(item)] = pr
            elif kind == 'filter':
                # long runs: keys concrete (k mod 3) except two, thresholds concrete (0 or 1) except two
                x = (k % 3) if cfg.get('concrete_keys') and k % 8 not in (2, 5) else sym_int('x%d' % k)
                item = (EqItem(x) if cfg.get('equal_items') else
                        FItem(x, not cfg.get('falsy')))   # a distinct object per item (equal values must stay distinguishable)
                key[id(item)] = x
            elif cfg.get('falsy'):
                item = FItem(k, False)
            else:
                item = ('it', k)
            ev = st.put(item)
            twin_op(k, op, item=item)
            reqs.append({'k': k, 'kind': 'put', 'ev': ev, 'item': item, 'cancelled': False, 'granted': False})
        elif op == 'get':
            if kind == 'filter':
                th = (k % 2) if cfg.get('concrete_keys') and k % 8 not in (1, 6) else sym_int('th%d' % k)
                if cfg.get('truthy_filter'):
                    ev = st.get(lambda it, th=th: 1 if it.v >= th else 0)      # truthy / falsy, not a bool
                else:
                    ev = st.get(lambda it, th=th: it.v >= th)
                twin_op(k, op, th=th)
                reqs.append({'k': k, 'kind': 'get', 'ev': ev, 'th': th, 'cancelled': False, 'granted': False})
            else:
                ev = st.get()
                twin_op(k, op)
                reqs.append({'k': k, 'kind': 'get', 'ev': ev, 'cancelled': False, 'granted': False})
        else:
            j = op[1]
            r = reqs[j] if j < len(reqs) else None
            reqs.append({'k': k, 'kind': 'noop', 'ev': None, 'cancelled': True, 'granted': False})
            twin_op(k, op)
            if r is not None and r['ev'] is not None and not r['ev'].triggered:
                if op[0] == 'exit':
                    r['ev'].__exit__(None, None, None)     # what leaving `with resource.put(..) as req:` does
                    cover('with-exit-pending')
                else:
                    r['ev'].cancel()
                r['cancelled'] = True
                cover('cancelled-pending')
        account()

    def account():
        """book the grants that became visible since the last call (called after every operation of the issuing process and
        after every kernel step: within one step a get may be served before later puts of the same burst are accepted)"""
        check('c07.store-bounded', le(len(st.items), cap), len(st.items))
        new_puts = [r for r in reqs if r['kind'] == 'put' and not r['granted'] and r['ev'].triggered]
        new_gets = [r for r in reqs if r['kind'] == 'get' and not r['granted'] and r['ev'].triggered]
        for r in new_puts:
            r['granted'] = True
            held.append(r['item'])
            for e in reqs:
                if e['kind'] == 'put' and e['k'] < r['k'] and not e['granted'] and not e['cancelled']:
                    fail('c07.fcfs', 'put %d accepted while put %d is pending' % (r['k'], e['k']))
        for r in new_gets:
            r['granted'] = True
            v = r['ev'].value
            idx = [i for i, x in enumerate(held) if x is v]
            check('c07.delivered-was-held-once', len(idx) == 1, (r['k'], len(idx)))
            if len(idx) != 1:
                continue
            i = idx[0]
            if kind == 'store':
                check('c07.store-fifo', i == 0, 'get %d received the item at position %d' % (r['k'], i))
            elif kind == 'prio':
                for x in held:
                    if x is not v:
                        check('c07.prio-smallest-first', le(key[id(v)], key[id(x)]), r['k'])
            else:
                check('c07.filter-matches', ge(key[id(v)], r['th']), r['k'])
                for x in held[:i]:
                    check('c07.filter-first-match', lt(key[id(x)], r['th']), r['k'])
            del held[i]
            delivered.append(v)
            cover('delivered')
            if kind != 'filter':
                for e in reqs:
                    if e['kind'] == 'get' and e['k'] < r['k'] and not e['granted'] and not e['cancelled']:
                        fail('c07.fcfs', 'get %d served while get %d is pending' % (r['k'], e['k']))
            else:
                for e in reqs:
                    if e['kind'] == 'get' and e['k'] < r['k'] and not e['granted'] and not e['cancelled']:
                        # overtaking is allowed only if the earlier getter's filter matched nothing that was held
                        for x in held + [v]:
                            check('c07.filter-overtake-only-nonmatching', lt(key[id(x)], e['th']), (r['k'], e['k']))
                        cover('filter-overtake')
        check('c07.items-are-the-held', len(st.items) == len(held) and
              all(any(a is b for b in st.items) for a in held), (len(st.items), len(held)))

    def after_step():
        account()
        if env.peek() == INF or env.peek() > env.now:
            pend_put = [r for r in reqs if r['kind'] == 'put' and not r['granted'] and not r['cancelled']]
            pend_get = [r for r in reqs if r['kind'] == 'get' and not r['granted'] and not r['cancelled']]
            if pend_put:
                check('c07.no-stranded-put', gt(len(held) + 1, cap), pend_put[0]['k'])
                cover('pending-at-quiescence')
            if pend_get:
                if kind == 'filter':
                    for g in pend_get:
                        for x in held:
                            check('c07.no-stranded-get', lt(key[id(x)], g['th']), g['k'])
                else:
                    check('c07.no-stranded-get', len(held) == 0, pend_get[0]['k'])
                cover('pending-at-quiescence')
            check('c07.queues-match', len(st.put_queue) == len(pend_put) and len(st.get_queue) == len(pend_get))

    env.process(_issuer(env, ops, burst, sorts, do_op)())
    _drive(env, after_step)
    if len([r for r in reqs if r['kind'] != 'noop']) >= 2:
        cover('nontrivial')
    if twin is not None:
        same = len(treqs) == len(reqs)
        for r, t in zip(reqs, treqs):
            if r['ev'] is None or t is None:
                continue
            same = same and (r['ev'].triggered == t.triggered)
            if r['kind'] == 'get' and r['ev'].triggered and t.triggered and kind != 'store':
                a, b = r['ev'].value, t.value
                ka = key[id(a)]
                kb = b.priority if kind == 'prio' else b.v
                check('c07.instances-independent', eq(ka, kb), r['k'])
        check('c07.instances-independent', same and len(twin.items) == len(st.items), 'the twin store ended in another state')
        cover('two-instances')
    obs('delivered', len(delivered), len(held))


HARNESSES = {'container': h_container, 'store': h_store}


def VIOL_KEY(cfg):
    return cfg.get('kind', 'container') + ('/cancel' if any(isinstance(o, list) for o in cfg['ops']) else '') + \
        ('/truthy' if cfg.get('truthy_filter') else '') + ('/eq' if cfg.get('equal_items') else '') + ('/falsy' if cfg.get('falsy') else '')


def _scripts(n, tier, rng):
    base = [list(p) for p in itertools.product(['put', 'get'], repeat=n)]
    out = [b for b in base]
    # cancel variants: cancel an earlier request after two further operations
    canc = []
    for b in base:
        for j in range(n - 1):
            s = b[:j + 2] + [['cancel', j]] + b[j + 2:]
            canc.append(s[:n + 1])
    rng.shuffle(canc)
    return out, canc


def jobs(tier, seed):
    rng = random.Random(7000 + int(seed))
    js = []
    n = 3 if tier == 'quick' else 4
    plain, canc = _scripts(n, tier, rng)
    canc_sel = canc if tier != 'quick' else canc[:8]
    must = [['put', 'put', ['cancel', 0], ['cancel', 0]], ['get', 'get', ['cancel', 0], ['exit', 0], 'put'],
            ['put', 'put', ['exit', 0]], ['get', 'get', ['exit', 0], 'put'],
            ['put', 'put', ['cancel', 0]], ['get', 'get', ['cancel', 0], 'put'], ['put', 'put', ['cancel', 0], 'get'],
            ['get', 'get', ['cancel', 0]], ['put', 'get', 'put', ['cancel', 1]]]
    for si, ops in enumerate(plain + must + canc_sel):
        sorts = 'int' if si % 2 else 'real'
        js.append({'harness': 'container', 'weight': 20,
                   'cfg': {'ops': ops, 'sorts': sorts, 'asort': 'int' if si % 3 else 'real'}})
        for kind in ('store', 'prio', 'filter'):
            if tier == 'quick' and si % 3 != {'store': 0, 'prio': 1, 'filter': 2}[kind] and ops not in must:
                continue
            js.append({'harness': 'store', 'weight': 20 if kind == 'store' else 60,
                       'cfg': {'ops': ops, 'sorts': sorts, 'kind': kind}})
    if tier != 'quick':
        # all histories of five operations (each on the container and on one store kind in turn), six in two bursts
        for si, ops in enumerate([list(p) for p in itertools.product(['put', 'get'], repeat=5)]):
            sorts = 'int' if si % 2 else 'real'
            js.append({'harness': 'container', 'weight': 100, 'cfg': {'ops': ops, 'sorts': sorts, 'asort': 'int' if si % 3 else 'real'}})
            kind = ('store', 'prio', 'filter')[si % 3]
            js.append({'harness': 'store', 'weight': 150, 'cfg': {'ops': ops, 'sorts': sorts, 'kind': kind}})
        for ops in (['put', 'put', 'get', 'put', 'get', 'get'], ['get', 'get', 'put', 'get', 'put', 'put'],
                    ['put', 'get', 'get', 'put', 'put', 'get']):
            js.append({'harness': 'container', 'weight': 150, 'cfg': {'ops': ops, 'burst': [0, 1, 1, 0, 1, 1], 'sorts': 'int'}})
            for kind in ('store', 'prio', 'filter'):
                js.append({'harness': 'store', 'weight': 200, 'cfg': {'ops': ops, 'burst': [0, 1, 1, 0, 1, 1], 'sorts': 'int', 'kind': kind}})
    # same-step bursts
    js.append({'harness': 'container', 'cfg': {'ops': ['put', 'put', 'get', 'get'], 'burst': [0, 1, 1, 1], 'sorts': 'int'},
               'weight': 30})
    js.append({'harness': 'store', 'cfg': {'ops': ['get', 'get', 'put', 'put'], 'burst': [0, 1, 1, 1], 'sorts': 'int',
                                           'kind': 'filter'}, 'weight': 60})
    js.append({'harness': 'store', 'cfg': {'ops': ['put', 'put', 'put', 'get', 'get'], 'burst': [0, 1, 1, 0, 1], 'sorts': 'int',
                                           'kind': 'prio'}, 'weight': 60})
    # the heap needs >= 6 items before a wrong sift can show: 6 puts in one burst, then 6 gets
    js.append({'harness': 'store', 'weight': 500,
               'cfg': {'ops': ['put'] * 6 + ['get'] * 6, 'burst': [0] + [1] * 5 + [0] + [1] * 5, 'sorts': 'int',
                       'kind': 'prio', 'symcap': False, 'cap': 8}})
    # two stores of one class in one environment
    for kind in ('store', 'prio', 'filter'):
        js.append({'harness': 'store', 'weight': 30, 'cfg': {'ops': ['put', 'get', 'put', 'get'], 'sorts': 'int', 'kind': kind, 'twin': True}})
    # amounts that differ by one part in 10^11 (exact rationals) or by 1 at 10^15: no tolerance anywhere
    for g in ('frac', 'big'):
        for ops in (['get', 'put', 'get'], ['put', 'get', 'put']):
            js.append({'harness': 'container', 'weight': 20, 'cfg': {'ops': ops, 'sorts': 'int', 'grid': g}})
    # items that compare equal but are different objects (1 and 1.0, records compared by one field)
    for ops in (['put', 'put', 'get', 'get'], ['put', 'put', 'put', 'get']):
        js.append({'harness': 'store', 'weight': 30, 'cfg': {'ops': ops, 'sorts': 'int', 'kind': 'filter', 'equal_items': True}})
    # filters whose verdict is truthy / falsy without being a bool (x % 2, re.match ...)
    js.append({'harness': 'store', 'weight': 30, 'cfg': {'ops': ['put', 'get', 'put', 'get'], 'sorts': 'int', 'kind': 'filter', 'truthy_filter': True}})
    # capacities that are not whole numbers
    for kind in ('store', 'prio'):
        js.append({'harness': 'store', 'weight': 30, 'cfg': {'ops': ['put', 'put', 'put', 'get'], 'sorts': 'int', 'kind': kind, 'realcap': True}})
    # falsy items (0, '', empty containers are items like any other)
    for kind in ('store', 'filter'):
        for ops in (['put', 'get', 'get', 'put'], ['get', 'put', 'put', 'get']):
            js.append({'harness': 'store', 'weight': 30, 'cfg': {'ops': ops, 'sorts': 'int', 'kind': kind, 'falsy': True}})
    # long runs: eight puts then eight gets (the item list must have grown), and the reverse (eight getters queued)
    for kind in ('store', 'filter'):
        for ops in (['put'] * 8 + ['get'] * 8, ['get'] * 8 + ['put'] * 8):
            js.append({'harness': 'store', 'weight': 200, 'opts': {'max_paths': 5000},
                       'cfg': {'ops': ops, 'burst': [0] + [1] * 7 + [0] + [1] * 7, 'sorts': 'int', 'kind': kind, 'symcap': False, 'cap': 8,
                               'concrete_keys': kind == 'filter'}})
    # default (unbounded) capacities
    js.append({'harness': 'container', 'weight': 10, 'cfg': {'ops': ['get', 'put', 'get', 'put'], 'sorts': 'int', 'default_capacity': True}})
    for kind in ('store', 'prio', 'filter'):
        js.append({'harness': 'store', 'weight': 10,
                   'cfg': {'ops': ['get', 'put', 'put', 'get'], 'sorts': 'int', 'kind': kind, 'default_capacity': True}})
    return js



def extra_checks(tier, seed):
    """second engine (CrossHair) on the function-level harnesses of xh.xh_c07"""
    from symx import xh
    return xh.run('xh.xh_c07', tier)


META = {
    'rule': 'one case = one feasible path of a put/get/cancel history (amounts, capacity, initial level, priorities, filter '
            'thresholds, instants symbolic); non-trivial = at least two requests',
    'required_labels': ['c07.level-in-range', 'c07.level-conserved', 'c07.no-stranded-put', 'c07.no-stranded-get',
                        'c07.store-bounded', 'c07.store-fifo', 'c07.prio-smallest-first', 'c07.filter-first-match',
                        'c07.filter-matches'],
    'required_covers': ['nontrivial', 'granted', 'delivered', 'cancelled-pending', 'with-exit-pending', 'pending-at-quiescence', 'filter-overtake', 'two-instances'],
    'bounds': {'quick': 'histories of 3 operations (put/get) plus one cancel of an earlier pending request, issued at symbolic, possibly '
                        'coinciding instants; Container capacity/init/amounts symbolic Int or Real; Store/PriorityStore/FilterStore capacity '
                        'symbolic Int >= 1, priorities and filter thresholds symbolic Int; falsy and equal-but-distinct items; double cancel; fractional capacities; exact near-equal amounts (grid); two stores side by side; runs of 8 puts + 8 gets',
               'thorough': 'histories of 4 operations plus a cancel; all put/get histories of 5 operations; 6 operations in two bursts'},
    'assumptions': ['requests are issued by one process that does not wait for them (several may be pending at once)',
                    'PriorityStore: order among equal priorities is not asserted', 'filters are of the form x >= threshold'],
    'stubs': [],
    'outside': ['longer histories', 'the one-step-from-arbitrary-quiescent-state form announced in DESIGN (not built)'],
}

MANIFEST = {
    'level_text': 'Bounded model checking by symbolic execution of the real Container/Store/PriorityStore/FilterStore with a step '
                  'monitor: range, conservation, FIFO / smallest-first / first-match delivery and the no-stranded-request rule at every '
                  'quiescent point, for symbolic amounts, capacities, priorities, thresholds and instants.',
    'level_note': 'Trusted: z3, symx proxies (validated by concrete witness replay); histories <= 6 operations.',
}
