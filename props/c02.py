"""C02 -- every waiter gets an event's outcome exactly once; failures are never lost."""
import itertools
import random

from symx import (sym_num, sym_int, check, obs, cover, eq, ge, le, lt, gt, fail, And, Or, Not)
from props.kcommon import sort_of

PROPERTY = 'C02'
INF = float('inf')


class _Boom(Exception):
    pass


Boom = _Boom


class Custom(Exception):
    """an exception class whose constructor does not take its own `args` tuple back (two required parameters, one arg) -
    the usual shape of application exceptions"""

    def __init__(self, value, tag):
        super().__init__(value)
        self.tag = tag


class Custom2(Exception):
    """its constructor validates its parameters: given its own args tuple back it raises ValueError, not TypeError"""

    def __init__(self, *parts):
        if len(parts) != 1:
            raise ValueError('exactly one part expected')
        super().__init__(parts[0], 'x')       # args == (value, 'x'): handing them back raises ValueError


class Custom3(Exception):
    """its constructor accepts its own args tuple back but builds a different message from it (it formats its parameters)"""

    def __init__(self, value, reason='unknown'):
        super().__init__(value, 'is down (%s)' % reason)
        self.reason = reason


def NARGS():
    return 2 if Boom in (Custom2, Custom3) else 1


def mkboom(v):
    if Boom is Custom:
        return Custom(v, 'tag')
    if Boom is Custom3:
        return Custom3(v, 'fibre cut')
    return Boom(v)


class Abort(BaseException):
    """a failure class that does not derive from Exception (Event.fail accepts any BaseException)"""


def h_event(cfg):
    """target: a shared event succeeded/failed by a trigger process, or a child process that returns/raises;
    waiters: processes (catching or not) and plain callbacks registering at symbolic instants."""
    from onl.sim import Environment
    from onl.sim.core import EmptySchedule
    env = Environment()
    sorts, target, waiters = cfg['sorts'], cfg['target'], cfg['waiters']
    second = cfg.get('second')
    nv = [0]

    def num(name):
        i = nv[0]
        nv[0] += 1
        return sym_num(name, sort_of(sorts, i), 0)

    global Boom
    Boom = {'base': Abort, 'custom': Custom, 'custom2': Custom2, 'custom3': Custom3}.get(cfg.get('exc'), _Boom)
    V = sym_int('V')
    fails = target in ('fail', 'child-raise')
    step = [0]
    regs, dels = [], []          # (waiter, step, now) / (waiter, step, now, kind, payload, excobj)
    box = {}
    tT = num('tT')
    orig_exc = mkboom(V)

    def child():
        yield env.timeout(tT)
        box['P'] = env.now
        if target == 'child-raise':
            raise orig_exc
        return V

    def trigger():
        yield env.timeout(tT)
        E = box['E']
        box['P'] = env.now
        if target == 'succeed':
            E.succeed(V)
        else:
            E.fail(orig_exc)
        if second:
            # a Timeout is triggered from its creation on: it refuses any further trigger as well
            tmo = env.timeout(num('tq'), value=V)
            b0 = (tmo.ok, tmo.value)
            try:
                if second == 'succeed':
                    tmo.succeed(tmo.value if cfg.get('second_same') else V + 1)
                else:
                    tmo.fail(mkboom(V + 1))
                fail('c02.second-trigger-raises', 'no RuntimeError for a pending Timeout')
            except RuntimeError:
                pass
            check('c02.second-trigger-changes-nothing', tmo.ok is b0[0] and tmo.value is b0[1], 'timeout')
            if cfg.get('second_when') != 'same-step':
                yield env.timeout(num('t2'))        # the first trigger has been processed by now
            else:
                cover('second-trigger-before-processing')
            before = (E.ok, E.value, env.peek())
            try:
                if second == 'succeed':
                    # 'same': the very value object of the first trigger (repeating a notification is still a second trigger)
                    E.succeed(E.value if cfg.get('second_same') and E.ok else V + 1)
                elif second == 'fail-nonexc':
                    E.fail('not an exception')         # already triggered: RuntimeError, whatever the argument is
                else:
                    E.fail(E.value if cfg.get('second_same') and not E.ok else mkboom(V + 1))
                fail('c02.second-trigger-raises', 'no RuntimeError')
            except RuntimeError:
                cover('second-trigger-refused')
            check('c02.second-trigger-changes-nothing', E.ok is before[0] and E.value is before[1])
            check('c02.second-trigger-no-agenda-entry', eq(env.peek(), before[2]) if before[2] != INF else env.peek() == INF)

    if target.startswith('child'):
        box['E'] = env.process(child())
    else:
        box['E'] = env.event()
        env.process(trigger())
    E = box['E']

    def sentinel(ev):
        dels.append(('s', step[0], env.now, 'ok' if ev.ok else 'exc', None, None))
    bare = bool(cfg.get('bare'))      # no probe callback on the event: its processing is polled after every kernel step
    if not bare:
        E.callbacks.append(sentinel)
    else:
        cover('observed-without-probes')
    regs.append(('s', -1, 0, False))

    def proc_waiter(i, catch):
        yield env.timeout(num('t%d' % i))
        regs.append((i, step[0], env.now, E.callbacks is None))
        try:
            v = yield E
            dels.append((i, step[0], env.now, 'ok', v, None))
        except Boom as e:
            dels.append((i, step[0], env.now, 'exc', e.args, e))
            if not catch:
                raise
        yield env.timeout(0)
        box.setdefault('alive-after', []).append(i)

    def cb_waiter(i):
        yield env.timeout(num('t%d' % i))
        if E.callbacks is not None:
            regs.append((i, step[0], env.now, False))

            def cb(ev):
                dels.append((i, step[0], env.now, 'ok' if ev.ok else 'exc', ev.value if ev.ok else ev.value.args, None))
            E.callbacks.append(cb)

    for i, w in enumerate(waiters):
        env.process(proc_waiter(i, w['catch']) if w['type'] == 'proc' else cb_waiter(i))

    crash = None
    try:
        while env.peek() != INF:
            try:
                env.step()
            finally:
                if bare and E.processed and not any(d[0] == 's' for d in dels):
                    dels.append(('s', step[0], env.now, 'ok' if E.ok else 'exc', None, None))
            step[0] += 1
            if step[0] > 300:
                fail('no-hang')
                return
    except EmptySchedule:
        pass
    except Boom as ex:
        crash = (ex, env.now, step[0])
    except Exception as ex:  # noqa
        fail('no-raise', '%s: %s' % (type(ex).__name__, ex))
        return

    P = box.get('P')
    sd = [d for d in dels if d[0] == 's']
    check('c02.processed-once', len(sd) <= 1)
    if P is not None:
        # the trigger / the child reached its end: its outcome must be processed as an event in that instant
        check('c02.termination-or-trigger-becomes-an-event', len(sd) == 1,
              'outcome never processed (crash=%s)' % (type(crash[0]).__name__ if crash else None))
    pstep = sd[0][1] if sd else None
    early = [r for r in regs if r[0] != 's' and not r[3]]       # registered before the event was processed
    late = [r for r in regs if r[0] != 's' and r[3]]
    early_procs = [r for r in early if waiters[r[0]]['type'] == 'proc']
    # expected crash: the failure is processed without any process waiting on it, or a waiter does not catch it
    if fails and sd:
        uncaught = [r for r in early_procs if not waiters[r[0]]['catch']]
        if not early_procs or uncaught:
            check('c02.unhandled-failure-raises', crash is not None, 'run continued silently')
            if crash is not None:
                check('c02.crash-same-exception', type(crash[0]) is Boom and len(crash[0].args) == NARGS() and
                      eq(crash[0].args[0], V))
                check('c02.crash-at-failure-instant', eq(crash[1], P))
                cover('crash')
        else:
            late_uncaught = [r for r in late if not waiters[r[0]]['catch']]
            if not late_uncaught:
                check('c02.handled-failure-does-not-raise', crash is None, 'crashed although every waiter handles it')
                cover('handled-failure')
    if not fails:
        check('c02.success-does-not-raise', crash is None)
    # deliveries
    if crash is None and sd:
        for r in early:
            mine = [d for d in dels if d[0] == r[0]]
            check('c02.exactly-once', len(mine) == 1, ('waiter', r[0], len(mine)))
            for d in mine:
                check('c02.delivered-when-processed', d[1] == pstep and eq(d[2], P), r[0])
        order_reg = [r[0] for r in early]
        order_del = [d[0] for d in dels if d[0] != 's' and d[1] == pstep and d[0] in order_reg]
        check('c02.registration-order', order_del == order_reg, (order_reg, order_del))
        for r in late:
            mine = [d for d in dels if d[0] == r[0]]
            check('c02.exactly-once', len(mine) == 1, ('late waiter', r[0], len(mine)))
            for d in mine:
                check('c02.processed-event-continues-at-once', d[1] == r[1] and eq(d[2], r[2]), r[0])
                cover('late-yield')
    excs = []
    for d in dels:
        if d[0] == 's':
            continue
        if fails:
            check('c02.outcome-kind', d[3] == 'exc', d[0])
            if d[3] == 'exc':
                check('c02.exception-args', len(d[4]) == NARGS() and eq(d[4][0], V) and tuple(d[4][1:]) == tuple(orig_exc.args[1:]),
                      (d[0], [str(x)[:30] for x in d[4][1:]]))
                if d[5] is not None:
                    check('c02.exception-is-a-copy', d[5] is not orig_exc and type(d[5]) is Boom, d[0])
                    excs.append(d[5])
        else:
            check('c02.outcome-kind', d[3] == 'ok', d[0])
            if d[3] == 'ok':
                check('c02.value', eq(d[4], V), d[0])
    check('c02.exception-exclusive-copy', len({id(e) for e in excs}) == len(excs))
    if target.startswith('child') and sd:
        check('c02.process-ok-flag', E.ok == (not fails))
        if fails:
            check('c02.process-value-is-exception', E.value is orig_exc)
        else:
            check('c02.process-value', eq(E.value, V))
    if len(dels) >= 2:
        cover('nontrivial')
    obs('dels', [(d[0], d[2], d[3]) for d in dels])
    obs('crash', crash is not None)


def h_chain(cfg):
    """a process yields a chain of already processed events (each with its own value): it continues at once,
    every time with that event's value"""
    from onl.sim import Environment
    env = Environment()
    n, sorts = cfg['n'], cfg['sorts']
    vals = [sym_int('v%d' % i) for i in range(n)]
    evs = []
    for i in range(n):
        if cfg['kinds'][i] == 'timeout':
            evs.append(env.timeout(sym_num('d%d' % i, sort_of(sorts, i), 0), value=vals[i]))
        else:
            e = env.event()
            e.succeed(vals[i])
            evs.append(e)
    got = []
    steps = [0]

    def p():
        yield env.timeout(sym_num('late', sort_of(sorts, n), 0))
        pending = [e for e in evs if not e.processed]
        s0, t0 = steps[0], env.now
        for i, e in enumerate(evs):
            was = e.processed
            v = yield e
            got.append((i, v, was, steps[0], env.now, s0, t0))
            if not was:
                s0, t0 = steps[0], env.now

    env.process(p())
    try:
        while env.peek() != INF:
            env.step()
            steps[0] += 1
    except Exception as ex:  # noqa
        fail('no-raise', '%s: %s' % (type(ex).__name__, ex))
        return
    check('c02.chain-complete', len(got) == n)
    for (i, v, was, st, now, s0, t0) in got:
        check('c02.chain-value', eq(v, vals[i]), i)
        if was:
            check('c02.processed-event-continues-at-once', st == s0 and eq(now, t0), i)
            cover('late-yield')
    cover('nontrivial')


HARNESSES = {'event': h_event, 'chain': h_chain}


def VIOL_KEY(cfg):
    return cfg.get('target', 'chain')


def jobs(tier, seed):
    rng = random.Random(8000 + int(seed))
    js = []
    P, Pn, C = {'type': 'proc', 'catch': True}, {'type': 'proc', 'catch': False}, {'type': 'cb', 'catch': True}
    wsets = [[], [P], [Pn], [C], [P, P], [P, C], [C, P], [P, Pn], [Pn, P], [C, C], [P, C, P]]
    if tier != 'quick':
        wsets += [[P, P, P], [C, Pn, P], [P, C, Pn, C], [Pn, Pn], [C, P, C, P], [P, P, P, P], [P, Pn, C, P, C],
                  [P, P, C, P, P], [C, P, Pn, P, C], [Pn, C, C, P, P], [C, C, C, P]]
    for target in ('succeed', 'fail', 'child-return', 'child-raise'):
        for wi, ws in enumerate(wsets):
            sorts = ('int', 'real', 'mixed')[wi % 3]
            js.append({'harness': 'event', 'weight': 4 ** len(ws),
                       'cfg': {'target': target, 'waiters': ws, 'sorts': sorts}})
            if wi % 2 == 1 and len(ws) <= 3:
                js.append({'harness': 'event', 'weight': 4 ** len(ws),
                           'cfg': {'target': target, 'waiters': ws, 'sorts': ('real', 'mixed', 'int')[wi % 3], 'bare': True}})
        if target in ('fail', 'child-raise'):
            for ws in ([P], [Pn, P], [P, Pn, P], [C, Pn]):
                js.append({'harness': 'event', 'weight': 4 ** len(ws),
                           'cfg': {'target': target, 'waiters': ws, 'sorts': 'int', 'exc': 'base'}})
                js.append({'harness': 'event', 'weight': 4 ** len(ws),
                           'cfg': {'target': target, 'waiters': ws, 'sorts': 'int', 'exc': 'custom'}})
                if len(ws) <= 2:
                    js.append({'harness': 'event', 'weight': 4 ** len(ws),
                               'cfg': {'target': target, 'waiters': ws, 'sorts': 'int', 'exc': 'custom2'}})
                    js.append({'harness': 'event', 'weight': 4 ** len(ws),
                               'cfg': {'target': target, 'waiters': ws, 'sorts': 'int', 'exc': 'custom3'}})
        if not target.startswith('child'):
            js.append({'harness': 'event', 'weight': 8,
                       'cfg': {'target': target, 'waiters': [P], 'sorts': 'int', 'second': 'fail-nonexc', 'second_when': 'same-step'}})
            for sec in ('succeed', 'fail'):
                js.append({'harness': 'event', 'weight': 8,
                           'cfg': {'target': target, 'waiters': [P], 'sorts': 'int', 'second': sec}})
                # second attempt in the same step as the first trigger (triggered, not yet processed)
                js.append({'harness': 'event', 'weight': 8,
                           'cfg': {'target': target, 'waiters': [P, C], 'sorts': 'int', 'second': sec, 'second_when': 'same-step'}})
                js.append({'harness': 'event', 'weight': 8,
                           'cfg': {'target': target, 'waiters': [P, C], 'sorts': 'int', 'second': sec, 'second_same': True,
                                   'second_when': 'same-step' if sec == 'succeed' else 'later'}})
                if tier != 'quick':
                    for ws in ([P, Pn, C], [C, P, P]):
                        for when in ('same-step', 'later'):
                            js.append({'harness': 'event', 'weight': 60,
                                       'cfg': {'target': target, 'waiters': ws, 'sorts': 'mixed', 'second': sec, 'second_when': when}})
    for kinds in (['timeout'], ['timeout', 'timeout'], ['event', 'timeout'], ['timeout', 'event', 'timeout']):
        js.append({'harness': 'chain', 'weight': 10, 'cfg': {'n': len(kinds), 'kinds': kinds, 'sorts': 'int'}})
    return js


META = {
    'rule': 'one case = one feasible path: an order-type of the trigger instant and the registration instants of the waiters '
            '(before / at / after processing); non-trivial = at least two deliveries',
    'required_labels': ['c02.exactly-once', 'c02.registration-order', 'c02.value', 'c02.exception-args',
                        'c02.exception-is-a-copy', 'c02.unhandled-failure-raises', 'c02.handled-failure-does-not-raise',
                        'c02.crash-at-failure-instant', 'c02.second-trigger-changes-nothing', 'c02.process-value',
                        'c02.processed-event-continues-at-once', 'c02.chain-value'],
    'required_covers': ['nontrivial', 'crash', 'handled-failure', 'late-yield', 'second-trigger-refused',
                        'second-trigger-before-processing', 'observed-without-probes'],
    'bounds': {'quick': 'one shared event or child process; <= 3 waiters (processes catching / not catching, plain callbacks) registering at '
                        'symbolic instants; second succeed/fail attempt (before and after the first is processed, and on a pending Timeout); chains of <= 3 already-processed events; values symbolic Int; failure classes with custom constructors (TypeError / ValueError on their own args); probe-free observation on a third of the jobs',
               'thorough': '<= 5 waiters; double triggers with 3 waiters'},
    'assumptions': ['a plain callback does not handle a failure (only a waiting process does)',
                    'a callback cannot be registered on a processed event (callbacks is None): such registrations are skipped'],
    'stubs': [],
    'outside': ['more waiters / several shared events in one program'],
}

MANIFEST = {
    'level_text': 'Bounded model checking by symbolic execution of the real event/process machinery with a registration/'
                  'delivery monitor: for every order-type of trigger and registration instants each waiter receives the outcome '
                  'exactly once, in registration order, with the right value or an exclusive exception copy, and an unhandled '
                  'failure raises at its instant.',
    'level_note': 'Trusted: z3, symx proxies (validated by concrete witness replay); <= 5 waiters on one event.',
}
