"""C06 -- resources: capacity, queue order, no idle slot, strict preemption."""
import itertools
import random

from symx import (sym_num, sym_int, sym_bool, choice, check, obs, cover, eq, ge, le, lt, gt, fail, And, Or, Not,
                  lex_lt)
from props.kcommon import sort_of

PROPERTY = 'C06'
INF = float('inf')


class Abort(BaseException):
    """an application signal that does not derive from Exception (like KeyboardInterrupt)"""


class Boom(Exception):
    pass


def h_res(cfg):
    from onl.sim import Environment, Interrupt, Resource, PriorityResource, PreemptiveResource
    from onl.sim.resources.resource import Preempted
    env = Environment()
    kind, cap, scripts, sorts = cfg['kind'], cfg['capacity'], cfg['scripts'], cfg['sorts']
    res = {'res': Resource, 'prio': PriorityResource, 'preempt': PreemptiveResource}[kind](env, capacity=cap)
    nv = [0]

    def num(name):
        if name in (cfg.get('concrete') or {}):
            return cfg['concrete'][name]          # long histories: most instants concrete, a few symbolic
        i = nv[0]
        nv[0] += 1
        return sym_num(name, sort_of(sorts, i), 0)

    reqs = []          # dict per request
    seq = [0]
    procs = {}
    evicted = {}       # user -> expectation for the Interrupt it must receive

    def key(r):
        if kind == 'res':
            return (r['seq'],)
        return (r['prio'], r['time'], 0 if r['preempt'] else 1, r['seq'])

    def mk_request(u):
        seq[0] += 1
        r = {'u': u, 'seq': seq[0], 'time': env.now, 'state': 'waiting', 'granted_at': None}
        if kind == 'res':
            r['ev'] = res.request()
        else:
            fx = (cfg.get('fixed') or {}).get(str(u))
            if fx is not None:
                r['prio'], r['preempt'] = fx[0], bool(fx[1])
            else:
                r['prio'] = sym_int('p%d' % u)
                r['preempt'] = bool(sym_bool('f%d' % u)) if kind == 'preempt' else bool(cfg.get('preempt_flags', [1] * 9)[u])
            r['ev'] = res.request(priority=r['prio'], preempt=r['preempt'])
        reqs.append(r)
        r['created_step'] = steps[0]
        return r

    def release(r):
        res.release(r['ev'])
        if r['state'] == 'using':
            r['state'] = 'released'

    def on_interrupt(u, r, it):
        if it.cause == 'external':
            cover('external-interrupt')
            return
        exp = evicted.pop(u, None)
        c = it.cause
        check('c06.preempted-cause', exp is not None and isinstance(c, Preempted), 'user %d' % u)
        if exp is None or not isinstance(c, Preempted):
            return
        check('c06.preempted-by', any(c.by is b for b in exp['by']))
        check('c06.preempted-usage-since', eq(c.usage_since, exp['since']))
        check('c06.preempted-resource', c.resource is res)
        check('c06.preempted-same-instant', eq(env.now, exp['at']))
        cover('preempted')

    arrivals = {}

    def arrival(u):
        grp = cfg.get('same_arrival') or []
        k = 'grp' if u in grp else u
        if k not in arrivals:
            arrivals[k] = num('a%s' % k)
        return arrivals[k]

    def user(u, script):
        try:
            yield env.timeout(arrival(u))
        except Interrupt:
            return              # interrupted from outside before it ever asked for the resource
        if script in ('hold', 'rel2', 'holdrel'):
            r = mk_request(u)
            try:
                yield r['ev']
                yield env.timeout(num('h%d' % u))
            except Interrupt as it:
                on_interrupt(u, r, it)
                if not r['ev'].triggered:
                    r['ev'].cancel()
                    r['state'] = 'cancelled'
            release(r)              # releasing after an eviction = releasing a non-user: harmless
            if script == 'rel2':
                snap = (res.count, list(res.users), list(res.queue))
                res.release(r['ev'])
                check('c06.double-release-harmless', res.count == snap[0] and list(res.users) == snap[1] and
                      list(res.queue) == snap[2])
                cover('double-release')
        elif script == 'giveup':
            r = mk_request(u)
            w = env.timeout(num('w%d' % u))
            try:
                yield r['ev'] | w
                if r['ev'].triggered:      # granted (possibly in the very instant the patience ran out)
                    try:
                        yield env.timeout(num('h%d' % u))
                    except Interrupt as it:
                        on_interrupt(u, r, it)
                    release(r)
                else:
                    r['ev'].cancel()
                    r['state'] = 'cancelled'
                    cover('cancelled')
                    # releasing a request that was never granted: harmless
                    snap = (res.count, list(res.users))
                    res.release(r['ev'])
                    check('c06.foreign-release-harmless', res.count == snap[0] and list(res.users) == snap[1])
            except Interrupt as it:
                on_interrupt(u, r, it)
        elif script in ('with', 'withexc', 'withgiveup', 'withabort'):
            r = None
            try:
                seq[0] += 1
                r = {'u': u, 'seq': seq[0], 'time': env.now, 'state': 'waiting', 'granted_at': None,
                     'created_step': steps[0]}
                if kind == 'res':
                    cm = res.request()
                else:
                    r['prio'] = sym_int('p%d' % u)
                    r['preempt'] = bool(sym_bool('f%d' % u)) if kind == 'preempt' else True
                    cm = res.request(priority=r['prio'], preempt=r['preempt'])
                r['ev'] = cm
                reqs.append(r)
                with cm as req:
                    if script == 'withgiveup':
                        # wait with limited patience inside the with-block; withdraw explicitly, then leave the block
                        # (which withdraws / releases once more)
                        yield req | env.timeout(num('w%d' % u))
                        if not req.triggered:
                            req.cancel()
                            r['state'] = 'cancelled'
                            cover('cancel-then-with-exit')
                        else:
                            yield env.timeout(num('h%d' % u))
                    else:
                        yield req
                        yield env.timeout(num('h%d' % u))
                        if script == 'withexc':
                            raise Boom()
                        if script == 'withabort':
                            raise Abort()
            except Boom:
                cover('with-exit-by-exception')
            except Abort:
                cover('with-exit-by-base-exception')
            except Interrupt as it:
                on_interrupt(u, r, it)
            if r is not None:
                # leaving the with-block gives the slot back (granted) or withdraws the request (still waiting),
                # also when the grant happened in this very instant and has not been processed yet
                if r['ev'].triggered and r['state'] in ('waiting', 'using'):
                    r['state'] = 'released'
                elif r['state'] == 'waiting':
                    r['state'] = 'cancelled'
            cover('with-exit')

    steps = [0]
    for u, script in enumerate(scripts):
        procs[u] = env.process(user(u, script))
    if cfg.get('interrupt') is not None:
        def interrupter():
            yield env.timeout(num('ti'))
            tgt = procs[cfg['interrupt']]
            if tgt.is_alive:
                tgt.interrupt('external')
        env.process(interrupter())

    def after_step():
        check('c06.count<=capacity', res.count <= cap, res.count)
        # grants of this step
        newly = [r for r in reqs if r['state'] == 'waiting' and r['ev'].triggered]
        waiting = [r for r in reqs if r['state'] == 'waiting' and not r['ev'].triggered]
        for g in newly:
            g['state'] = 'using'
            g['granted_at'] = env.now
            check('c06.usage-since', eq(g['ev'].usage_since, env.now), g['u'])
            for w in waiting:
                check('c06.grant-in-queue-order', lex_lt(key(g), key(w)),
                      'user %d granted ahead of user %d' % (g['u'], w['u']))
            cover('granted')
        # users set == granted and not released / evicted
        using = [r for r in reqs if r['state'] == 'using']
        in_users = [r for r in using if any(x is r['ev'] for x in res.users)]
        gone = [r for r in using if not any(x is r['ev'] for x in res.users)]
        check('c06.users-are-exactly-the-holders', len(res.users) == len(in_users), (len(res.users), len(in_users)))
        for r in gone:
            # not released by its holder: must be an eviction by a request created in this step
            pre = [g for g in newly if g.get('preempt')]
            if kind != 'preempt' or not pre:
                fail('c06.user-vanished', 'user %d lost its slot without release or legal preemption' % r['u'])
                r['state'] = 'evicted'
                continue
            p = pre[0]
            check('c06.evict-only-strictly-worse', Or([lex_lt(key(q)[:3], key(r)[:3]) for q in pre]),
                  ([q['u'] for q in pre], r['u']))
            for o in in_users:
                if not any(o is q for q in pre):
                    check('c06.evict-worst-user', Not(lex_lt(key(r), key(o))), (r['u'], o['u']))
            check('c06.evict-only-when-full', len(in_users) == cap, (len(in_users), cap))
            r['state'] = 'evicted'
            evicted[r['u']] = {'by': [procs[q['u']] for q in pre], 'since': r['granted_at'], 'at': env.now}
            cover('evicted')
        if env.peek() == INF or env.peek() > env.now:
            # the clock is about to advance: no request waits while a slot is free
            check('c06.no-idle-slot', len(res.queue) == 0 or res.count == cap, (len(res.queue), res.count))
            check('c06.queue-matches-waiting', len(res.queue) == len(waiting), (len(res.queue), len(waiting)))
            check('c06.interrupt-delivered-in-instant', not evicted, list(evicted))
        steps[0] += 1

    from onl.sim.core import EmptySchedule
    try:
        while env.peek() != INF:
            env.step()
            after_step()
            if steps[0] > 500:
                fail('no-hang')
                break
    except EmptySchedule:
        pass
    except Exception as ex:  # noqa
        fail('no-raise', '%s: %s' % (type(ex).__name__, ex))
        return
    check('c06.all-served', all(r['state'] in ('released', 'cancelled', 'evicted') for r in reqs),
          [(r['u'], r['state']) for r in reqs])
    check('c06.empty-at-end', res.count == 0 and len(res.queue) == 0)
    if len(reqs) >= 2:
        cover('nontrivial')
    for r in reqs:
        obs('req', r['u'], r['state'], r['granted_at'])


HARNESSES = {'res': h_res}


def VIOL_KEY(cfg):
    return cfg['kind']


def jobs(tier, seed):
    rng = random.Random(6000 + int(seed))
    js = []
    base = ['hold', 'giveup', 'with', 'withexc', 'rel2']
    for kind in ('res', 'prio', 'preempt'):
        pairs = list(itertools.product(base, repeat=2))
        if tier == 'quick':
            pairs = [pr for i, pr in enumerate(pairs) if (i + len(kind)) % 2 == 0 or 'giveup' in pr or 'hold' in pr]
        for ci, sc in enumerate(pairs):
            js.append({'harness': 'res', 'weight': 30,
                       'cfg': {'kind': kind, 'capacity': 1, 'scripts': list(sc), 'sorts': 'int' if ci % 2 else 'real'}})
        triples = [(('hold', 'hold', 'hold'), 1)] + ([(('hold', 'hold', 'hold'), 2)] if kind != 'preempt' or tier != 'quick' else [])
        if tier != 'quick':
            triples += [(('hold', 'giveup', 'hold'), 1), (('with', 'hold', 'withexc'), 1), (('rel2', 'giveup', 'with'), 2)]
        elif kind == 'res':
            triples += [(('hold', 'giveup', 'hold'), 1), (('with', 'hold', 'withexc'), 1)]
        elif kind == 'prio':
            triples += [(('rel2', 'giveup', 'with'), 2)]
        if tier != 'quick':
            allc = list(itertools.product(base, repeat=3))
            rng.shuffle(allc)
            triples += [(c, 1 + (i % 2)) for i, c in enumerate(allc[:3])]
        if kind == 'preempt':
            # two users with identical (priority, request time, preempt flag) hold both slots; a third one preempts:
            # the later arrival of the two is the worst-ranked
            js.append({'harness': 'res', 'weight': 100,
                       'cfg': {'kind': kind, 'capacity': 2, 'scripts': ['hold', 'hold', 'hold'], 'sorts': 'int',
                               'fixed': {'0': [1, 0], '1': [1, 0]}, 'same_arrival': [0, 1]}})
            js.append({'harness': 'res', 'weight': 100,
                       'cfg': {'kind': kind, 'capacity': 2, 'scripts': ['hold', 'hold', 'hold'], 'sorts': 'real',
                               'fixed': {'0': [2, 1], '1': [2, 1], '2': [1, 1]}, 'same_arrival': [0, 1]}})
        if kind == 'preempt':
            # a preempting request queued behind a better-ranked non-preempting waiter that gives up (or leaves its with-block):
            # the eviction then happens during somebody else's cancel, and must still name the preemptor
            for mid in ('giveup', 'with'):
                js.append({'harness': 'res', 'weight': 100,
                           'cfg': {'kind': kind, 'capacity': 1, 'scripts': ['hold', mid, 'hold'], 'sorts': 'int',
                                   'fixed': {'0': [2, 0], '1': [0, 0], '2': [1, 1]}}})
        # a with-block left by an exception that does not derive from Exception, caught further out: the slot is given back
        js.append({'harness': 'res', 'weight': 60,
                   'cfg': {'kind': kind, 'capacity': 1, 'scripts': ['withabort', 'hold'], 'sorts': 'int'}})
        # explicit cancel inside a with-block, then the block's own exit
        js.append({'harness': 'res', 'weight': 60,
                   'cfg': {'kind': kind, 'capacity': 1, 'scripts': ['hold', 'withgiveup', 'hold'] if kind == 'res' else ['hold', 'withgiveup'],
                           'sorts': 'int'}})
        # priorities need not be integers (0.7 and 0.2 share their integer part)
        if kind != 'res':
            js.append({'harness': 'res', 'weight': 60,
                       'cfg': {'kind': kind, 'capacity': 1, 'scripts': ['hold', 'hold', 'hold'], 'sorts': 'int',
                               'fixed': {'0': [0.9, 0], '1': [0.7, 0], '2': [0.2, 1 if kind == 'preempt' else 0]}}})
        # long waiting lines: seven users, five or six of them queued at once (sorted queue of priorities with ties),
        # most instants and priorities concrete, two priorities and two instants symbolic
        if kind != 'res' or tier != 'quick':
            conc = {'a0': 0, 'a1': 1, 'a2': 1, 'a3': 2, 'a5': 3, 'a6': 3, 'h0': 10, 'h1': 1, 'h2': 2, 'h4': 1, 'h5': 0, 'h6': 2}
            fixed = {'0': [5, 0], '1': [3, 0], '2': [3, 1 if kind == 'preempt' else 0], '4': [1, 0], '5': [3, 0], '6': [0, 0]}
            js.append({'harness': 'res', 'weight': 200, 'opts': {'max_paths': 6000},
                       'cfg': {'kind': kind, 'capacity': 1, 'scripts': ['hold'] * 7, 'sorts': 'int', 'concrete': conc, 'fixed': fixed}})
        # a user of a with-block interrupted from outside at a symbolic instant (before, at and after its grant)
        for sc, tgt in ((('hold', 'with', 'hold'), 1), (('hold', 'with'), 1), (('with', 'with', 'hold'), 1)):
            if kind == 'preempt' and len(sc) == 3 and tier == 'quick':
                continue
            js.append({'harness': 'res', 'weight': 200,
                       'cfg': {'kind': kind, 'capacity': 1, 'scripts': list(sc), 'sorts': 'int', 'interrupt': tgt},
                       'opts': {'max_paths': 30000 if tier == 'quick' else 150000}})
        for ci, (sc, cap) in enumerate(triples):
            js.append({'harness': 'res', 'weight': 400 if kind == 'preempt' else 150,
                       'cfg': {'kind': kind, 'capacity': cap, 'scripts': list(sc), 'sorts': 'int' if ci % 2 else 'real'},
                       'opts': {'max_paths': 30000 if tier == 'quick' else 150000}})
    return js


META = {
    'rule': 'one case = one feasible path: an order-type of arrival, hold and give-up instants together with a priority '
            'ordering and preempt flags of up to 3-4 users',
    'required_labels': ['c06.count<=capacity', 'c06.grant-in-queue-order', 'c06.no-idle-slot',
                        'c06.users-are-exactly-the-holders', 'c06.evict-only-strictly-worse', 'c06.preempted-by',
                        'c06.preempted-usage-since', 'c06.double-release-harmless', 'c06.foreign-release-harmless'],
    'required_covers': ['nontrivial', 'granted', 'cancelled', 'evicted', 'preempted', 'with-exit-by-exception', 'external-interrupt'],
    'bounds': {'quick': 'Resource / PriorityResource / PreemptiveResource, capacity 1-2, 2-3 users with scripts from {hold, give up after w '
                        '(cancel), with-block, with-block left by exception, double release, release of a cancelled request}; all '
                        'instants, priorities (Int) and preempt flags symbolic; eviction during another request\'s cancel; fractional priorities; 7-user waiting lines (mostly concrete); cancel + with-exit; with-block left by a BaseException',
               'thorough': '3-4 users, 27 script combinations per resource kind'},
    'assumptions': ['each user holds or awaits at most one request at a time (precondition of the statement)'],
    'stubs': [],
    'outside': ['more users than the bound', 'several resources'],
}

MANIFEST = {
    'level_text': 'Bounded model checking by symbolic execution of the real resource classes with a step monitor: capacity, '
                  'queue-order of every grant, no idle slot when the clock advances, and the strict preemption rule are solver '
                  'obligations over symbolic instants and priorities.',
    'level_note': 'Trusted: z3, symx proxies (validated by concrete witness replay); <= 4 users per resource, one resource.',
}
