"""C01 -- events take effect in time order, urgent first, then trigger order."""
import random

from symx import (sym_num, sym_int, sym_real, check, obs, cover, eq, ge, lt, lex_lt, fail,
                  And, Or, Not)
from props.kcommon import Monitor, sort_of, gen_programs

PROPERTY = 'C01'


def _imports():
    from onl.sim import Environment, Interrupt
    return Environment, Interrupt


def run_program(env, mon, shape, sorts, Interrupt, initial_time=0, delays=None, bare=False, fixed=None):
    """bare: no probe callbacks at all - occurrences are observed only where the program's own processes resume
    (a timeout by the process that waits for it, a shared event by its waiters, a termination by its joiners)"""
    scripts = shape['scripts']
    top = shape['top']
    nshared = 1 + max([i[1] for s in scripts for i in s if i[0] in ('E', 'W')] or [0])
    shared = [env.event() for _ in range(nshared)]
    procs, pend, term, nvar = {}, {}, {}, [0]
    shared_occ = {}
    chained = {}

    def delay(pi=None, k=None):
        if fixed and '%d.%d' % (pi, k) in fixed:
            return fixed['%d.%d' % (pi, k)]         # long programs: most delays concrete, a few symbolic
        if delays is not None:
            # the same program run several times in one symbolic run: delays identified by instruction
            if (pi, k) not in delays:
                i = len(delays)
                delays[(pi, k)] = sym_num('d%d' % i, sort_of(sorts, i), 0)
            return delays[(pi, k)]
        i = nvar[0]
        nvar[0] += 1
        return sym_num('d%d' % i, sort_of(sorts, i), 0)

    def term_probe(pi):
        def cb(event):
            mon.seen(term[pi])
        return cb

    def spawn(pi):
        o = mon.trig('start%d' % pi, env.now, 0)
        pend[pi] = []
        p = env.process(body(pi, o))
        if not bare:
            p.callbacks.insert(0, term_probe(pi))
        procs[pi] = p

    def body(pi, start):
        mon.seen(start)
        waiting_for = None
        for k_ins, ins in enumerate(scripts[pi]):
            op = ins[0]
            try:
                if op == 'T':
                    d = delay(pi, k_ins)
                    ev = env.timeout(d)
                    o = mon.trig('timeout%d' % pi, env.now + d, 1)
                    if bare:
                        waiting_for = o
                        yield ev
                        waiting_for = None
                        mon.seen(o)
                    else:
                        ev.callbacks.append(mon.probe(o))
                        yield ev
                elif op == 'U':
                    # fire and forget: a timeout nobody waits for still occupies the agenda and moves the clock
                    d = delay(pi, k_ins)
                    ev = env.timeout(d)
                    o = mon.trig('unawaited%d' % pi, env.now + d, 1)
                    if bare:
                        o.void = True
                    else:
                        ev.callbacks.append(mon.probe(o))
                elif op == 'Y':
                    # an empty condition is met at once: an ordinary event triggered now
                    ev = env.all_of([]) if ins[1] else env.any_of([])
                    o = mon.trig('emptycond%d' % pi, env.now, 1)
                    if bare:
                        waiting_for = o
                        yield ev
                        waiting_for = None
                        mon.seen(o)
                    else:
                        ev.callbacks.append(mon.probe(o))
                        yield ev
                elif op == 'S':
                    spawn(ins[1])
                elif op == 'I':
                    tgt = procs.get(ins[1])
                    if tgt is not None and tgt.is_alive and ins[1] != pi:
                        o = mon.trig('intr%d' % ins[1], env.now, 0)
                        pend[ins[1]].append(o)
                        tgt.interrupt(o.id)
                elif op == 'E':
                    ev = shared[ins[1]]
                    if not ev.triggered:
                        o = mon.trig('event%d' % ins[1], env.now, 1)
                        if bare:
                            shared_occ[ins[1]] = o
                            if not ev.callbacks:
                                o.void = True          # nobody waits: its processing is not observable from the program
                        else:
                            ev.callbacks.insert(0, mon.probe(o))
                        ev.succeed(pi)
                elif op == 'G':
                    # the shared event is triggered through Event.trigger, chained behind a helper event: it becomes an
                    # ordinary occurrence at the moment the helper is processed
                    ev = shared[ins[1]]
                    if not ev.triggered and not chained.get(ins[1]):
                        chained[ins[1]] = True
                        helper = env.event()

                        def relay(h, ev=ev, k=ins[1]):
                            if not ev.triggered:
                                o2 = mon.trig('chained%d' % k, env.now, 1)
                                if bare:
                                    shared_occ[k] = o2
                                    if not ev.callbacks:
                                        o2.void = True
                                else:
                                    ev.callbacks.insert(0, mon.probe(o2))
                                ev.trigger(h)
                        oh = mon.trig('helper%d' % pi, env.now, 1)
                        helper.callbacks.append(lambda h, oh=oh: mon.seen(oh))
                        helper.callbacks.append(relay)
                        helper.succeed(pi)
                elif op == 'W':
                    was = shared[ins[1]].processed
                    yield shared[ins[1]]
                    o = shared_occ.get(ins[1])
                    if bare and o is not None and not o.seen and not was:
                        mon.seen(o)
                elif op == 'J':
                    tgt = procs.get(ins[1])
                    if tgt is not None:
                        was = tgt.processed
                        yield tgt
                        o = term.get(ins[1])
                        if bare and o is not None and not o.seen and not was:
                            mon.seen(o)
            except Interrupt as it:
                if waiting_for is not None:
                    waiting_for.void = True            # abandoned: nobody observes it any more
                    waiting_for = None
                o = pend[pi].pop(0)
                check('c01.intr-fifo', it.cause == o.id)
                mon.seen(o)
                cover('interrupt-delivered')
        for o in pend[pi]:
            o.void = True
        term[pi] = mon.trig('term%d' % pi, env.now, 1)
        if bare and not env.active_process.callbacks:
            term[pi].void = True                       # nobody joins (so far): not observable from the program

    for pi in range(top):
        spawn(pi)
    return procs, shared


def h_prog(cfg):
    Environment, Interrupt = _imports()
    if cfg.get('tau'):
        tau = sym_num('tau', 'real' if cfg['sorts'] == 'real' else 'int')     # any sign
        env = Environment(initial_time=tau)
        cover('initial-time')
    else:
        env = Environment()
    mon = Monitor(env)
    run_program(env, mon, cfg['shape'], cfg['sorts'], Interrupt, bare=bool(cfg.get('bare')), fixed=cfg.get('fixed'))
    if cfg.get('fixed'):
        cover('long-agenda')
    if cfg.get('bare'):
        cover('observed-without-probes')
    try:
        if cfg.get('until') is not None:
            c = cfg['until']
            stop = mon.trig('stop', c, 0)
            r = env.run(until=c)
            check('c01.until-now', eq(env.now, c))
            mon.seen(stop)
            cover('until-stop')
        env.run()
    except Exception as ex:  # noqa
        fail('no-raise', '%s: %s' % (type(ex).__name__, ex))
        return
    mon.finish()
    # the agenda is exhausted: the clock stands at the latest due time of anything that was ever scheduled (observed or not)
    from symx import smax
    check('c01.final-clock', eq(env.now, smax(*[o.due for o in mon.occs])), 'clock after the run')
    # non-triviality: at least two occurrences took effect at one instant
    if mon.seq >= 2:
        cover('nontrivial')


def h_negdelay(cfg):
    """Timeout with a negative delay is refused with ValueError at any time and
    leaves agenda and clock untouched; delay 0 and positive delays are accepted."""
    Environment, Interrupt = _imports()
    env = Environment()
    sort = cfg['sorts']
    t0 = sym_num('t0', sort_of(sort, 0), 0)
    d = sym_num('d', sort_of(sort, 1))
    out = {}

    def body():
        yield env.timeout(t0)
        other = env.timeout(sym_num('e', sort_of(sort, 2), 0))   # something on the agenda
        before = (env.now, env.peek())
        try:
            ev = env.timeout(d)
            out['ok'] = ev
        except ValueError:
            out['refused'] = True
        out['after'] = (env.now, env.peek())
        out['before'] = before
        if 'ok' in out:
            yield out['ok']
            out['t_fire'] = env.now

    env.process(body())
    try:
        env.run()
    except Exception as ex:  # noqa
        fail('no-raise', '%s: %s' % (type(ex).__name__, ex))
        return
    if 'refused' in out:
        check('c01.neg-refused-only-if-negative', lt(d, 0))
        check('c01.neg-clock-unchanged', eq(out['before'][0], out['after'][0]))
        check('c01.neg-agenda-unchanged', eq(out['before'][1], out['after'][1]))
        cover('nontrivial')
        cover('neg-refused')
    else:
        check('c01.nonneg-accepted-only-if-nonneg', ge(d, 0))
        check('c01.exact-time', eq(out['t_fire'], t0 + d))
        cover('nonneg-accepted')
    obs('neg', 'refused' in out)


HARNESSES = {'prog': h_prog, 'negdelay': h_negdelay}

U_SHAPES = [
    {'top': 2, 'scripts': [[['T'], ['G', 0], ['T']], [['W', 0], ['T']]]},
    {'top': 3, 'scripts': [[['T'], ['G', 0]], [['T'], ['E', 1], ['T']], [['W', 0], ['W', 1]]]},
    {'top': 2, 'scripts': [[['T'], ['E', 0], ['Y', 1], ['T']], [['W', 0], ['T']]]},
    {'top': 3, 'scripts': [[['T'], ['Y', 0]], [['T'], ['T']], [['T'], ['E', 0]]]},
    {'top': 1, 'scripts': [[['U'], ['T']]]},
    {'top': 2, 'scripts': [[['T'], ['U']], [['T']]]},
    {'top': 2, 'scripts': [[['U'], ['U']], [['T'], ['T']]]},
    {'top': 2, 'scripts': [[['T'], ['I', 1], ['U']], [['T'], ['U']]]},
]

CORE_SHAPES = [
    # three independent timers
    {'top': 3, 'scripts': [[['T']], [['T']], [['T']]]},
    # two processes, two steps each
    {'top': 2, 'scripts': [[['T'], ['T']], [['T'], ['T']]]},
    # spawn at a symbolic instant while another timer may be due then
    {'top': 2, 'scripts': [[['T'], ['S', 2]], [['T'], ['T']], [['T']]]},
    # interrupt a sleeper at a symbolic instant (its own timeout may be due then)
    {'top': 2, 'scripts': [[['T'], ['I', 1]], [['T'], ['T']]]},
    # interrupt + spawn at the same instant
    {'top': 2, 'scripts': [[['T'], ['S', 2], ['I', 1]], [['T']], [['T']]]},
    # interrupt first, then spawn, in one step (urgent occurrences keep their trigger order)
    {'top': 2, 'scripts': [[['T'], ['I', 1], ['S', 2]], [['T'], ['T']], [['T']]]},
    {'top': 2, 'scripts': [[['T'], ['I', 1], ['S', 2], ['I', 1]], [['T'], ['T'], ['T']], []]},
    # shared event succeeded at a symbolic instant, waiter continues with a timeout
    {'top': 2, 'scripts': [[['T'], ['E', 0]], [['W', 0], ['T']]]},
    # join
    {'top': 2, 'scripts': [[['J', 1], ['T']], [['T']]]},
    # two interrupts from two processes on one victim
    {'top': 3, 'scripts': [[['T'], ['I', 2]], [['T'], ['I', 2]], [['T']]]},
    # zero-length chain: spawn child which spawns grandchild immediately
    {'top': 1, 'scripts': [[['S', 1], ['T']], [['S', 2], ['T']], [['T']]]},
]


def jobs(tier, seed):
    js = []
    rng = random.Random(1000 + int(seed))
    if tier == 'quick':
        max_occ, nrand, sortss = 8, 45, ['int', 'real', 'mixed']
    else:
        max_occ, nrand, sortss = 9, 160, ['int', 'real', 'mixed']
    shapes = list(CORE_SHAPES)
    for _ in range(nrand):
        shapes.append(gen_programs(rng, 3, max_occ, ['T', 'T', 'T', 'S', 'I', 'E', 'W', 'J']))
    if tier != 'quick':
        # larger fixed programs: 4 processes x 2 timeouts, 3 x 3, and a spawn/interrupt mix with 6 timeouts
        shapes += [{'top': 4, 'scripts': [[['T'], ['T']], [['T'], ['T']], [['T'], ['T']], [['T'], ['T']]]},
                   {'top': 2, 'scripts': [[['T'], ['S', 2], ['T'], ['I', 1]], [['T'], ['T'], ['J', 2]], [['T'], ['E', 0], ['T']]]}]
    for si, sh in enumerate(shapes):
        nT = sum(1 for s in sh['scripts'] for i in s if i[0] == 'T')
        for sorts in (sortss if si < len(CORE_SHAPES) else [sortss[si % 3]]):
            js.append({'harness': 'prog', 'cfg': {'shape': sh, 'sorts': sorts, 'until': None},
                       'weight': 4 ** nT, 'opts': {'max_seconds': 60 if tier == 'quick' else 400}})
        if si % 3 == 0:
            js.append({'harness': 'prog', 'cfg': {'shape': sh, 'sorts': sortss[(si + 1) % 3], 'until': None, 'bare': True},
                       'weight': 4 ** nT, 'opts': {'max_seconds': 60 if tier == 'quick' else 400}})
        # numeric until-stop at a concrete instant the symbolic delays can hit
        if si % 2 == 0:
            js.append({'harness': 'prog', 'cfg': {'shape': sh, 'sorts': sortss[si % 3], 'until': 2},
                       'weight': 4 ** nT, 'opts': {'max_seconds': 60 if tier == 'quick' else 300}})
    # long agendas: 8 processes x 3 timeouts (24 entries on the heap at once, many ties among the concrete delays),
    # three of the delays symbolic
    lrng = random.Random(77 + int(seed))
    for variant in range(2 if tier == 'quick' else 6):
        sh = {'top': 8, 'scripts': [[['T'], ['T'], ['T']] for _ in range(8)]}
        keys = ['%d.%d' % (pi, k) for pi in range(8) for k in range(3)]
        symk = set(lrng.sample(keys, 3))
        fixed = {k: lrng.choice([0, 1, 1, 2, 2, 3, 5]) for k in keys if k not in symk}
        js.append({'harness': 'prog', 'cfg': {'shape': sh, 'sorts': 'int', 'until': None, 'fixed': fixed, 'bare': variant % 2 == 1},
                   'weight': 300, 'opts': {'max_seconds': 60 if tier == 'quick' else 300, 'max_paths': 6000}})
    # timeouts nobody waits for (with and without probe callbacks)
    for si, sh in enumerate(U_SHAPES):
        for bare in (False, True):
            js.append({'harness': 'prog', 'cfg': {'shape': sh, 'sorts': ('int', 'real', 'mixed')[si % 3], 'until': None, 'bare': bare},
                       'weight': 30})
    for si, sh in enumerate(CORE_SHAPES[:6]):
        js.append({'harness': 'prog', 'cfg': {'shape': sh, 'sorts': ('int', 'real')[si % 2], 'until': None, 'tau': True},
                   'weight': 50})
    for sorts in ['int', 'real', 'mixed']:
        js.append({'harness': 'negdelay', 'cfg': {'sorts': sorts}, 'weight': 1})
    return js


META = {
    'rule': 'one case = one feasible path (input region: an order-type of all due times) of one program '
            'shape; non-trivial = the program triggered at least two occurrences, or a negative delay was refused',
    'required_labels': ['c01.final-clock', 'c01.time', 'c01.order', 'c01.once', 'c01.monotonic', 'c01.all-seen',
                        'c01.neg-refused-only-if-negative', 'c01.until-now'],
    'required_covers': ['nontrivial', 'interrupt-delivered', 'until-stop', 'neg-refused', 'initial-time', 'observed-without-probes', 'long-agenda'],
    'bounds': {
        'quick': 'program shapes: 11 core + 45 seeded random, <= 3 processes, <= 5 timeouts (<= 8 instructions) per program; '
                 'delays unbounded (>= 0) Int / Real / mixed; until-stop at the concrete instant 2; a third of the programs also observed without probe callbacks; '
                 '2 long programs (8 processes x 3 timeouts, 21 concrete delays with ties, 3 symbolic); programs with un-awaited timeouts and empty conditions; final-clock obligation',
        'thorough': 'program shapes: 11 core + 160 seeded random, <= 3 processes, <= 6 timeouts; delays unbounded',
    },
    'assumptions': ['interrupt causes and event values are concrete tags',
                    'run(until=<number>) instants are concrete (Environment.run calls float())'],
    'stubs': [],
    'outside': ['programs with more occurrences than the bound', 'binary64 rounding of now + delay'],
}

MANIFEST = {
    'level_text': 'Bounded model checking by symbolic execution of the real kernel: for every program shape in the '
                  'bound, every order-type of the (unbounded, symbolic) delays is a solver-enumerated path and the '
                  '(due time, urgent-first, trigger order) law is proved per path; not a proof beyond the shape bound.',
    'level_note': 'Trusted: z3, the symx proxies (validated per run by concrete witness replay on /venv/bin/python), '
                  'exact-rational model of floats; program shapes bounded (<= 3 processes, <= 7/9 occurrences); '
                  'run(until=number) instants concrete.',
}
