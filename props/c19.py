"""C19 -- Timer: fires exactly at its expiry; stop/restart always take effect."""
from symx import (sym_num, sym_int, check, obs, cover, eq, ge, le, lt, gt, fail, And, Or, Not)
from props.kcommon import sort_of

PROPERTY = 'C19'


class TimerRef:
    """reference model written from the statement, advanced in the order in which the
    kernel actually performs firings and controller calls"""

    def __init__(self, env, auto):
        self.env = env
        self.auto = auto
        self.E = None          # next expected expiry
        self.period = None
        self.stopped = False
        self.free = False      # behaviour no longer determined by the statement
        self.nfired = 0
        self.in_cb = False

    def _overdue(self):
        if self.E is not None and not self.stopped and not self.free:
            check('c19.not-overdue', le(self.env.now, self.E), 'an expected firing did not happen')

    def created(self, timeout):
        self.E = self.env.now + timeout
        self.period = timeout

    def fired(self, args, exp_args):
        now = self.env.now
        self.nfired += 1
        if any(isinstance(b, (str, bytes)) for b in exp_args):
            check('c19.args', list(args) == list(exp_args), (self.nfired, repr(args)[:40]))
        else:
            check('c19.args', len(args) == len(exp_args) and And([eq(a, b) for a, b in zip(args, exp_args)]), self.nfired)
        if self.free:
            return
        if self.stopped:
            fail('c19.no-fire-after-stop', self.nfired)
            return
        if self.E is None:
            fail('c19.unexpected-firing', self.nfired)
            return
        check('c19.fires-at-expiry', eq(now, self.E), self.nfired)
        self.E = now + self.period if self.auto else None
        cover('fired')

    def stop(self):
        self._overdue()
        self.stopped = True
        cover('stop')

    def restart(self, tau):
        self._overdue()
        if self.stopped:
            return
        if self.E is not None or self.in_cb:
            self.E = self.env.now + tau
            self.period = tau
            cover('restart-pending' if not self.in_cb else 'restart-from-callback')
        else:
            # one-shot timer that has already fired, restarted from outside: not covered by the statement
            self.free = True
            cover('restart-after-finish')

    def finish(self):
        if self.E is not None and not self.stopped and not self.free:
            fail('c19.missing-firing', 'run ended with an armed timer that never fired')


def h_timer(cfg):
    from onl.sim import Environment
    from onl.utils import Timer
    env = Environment()
    sorts, auto, argmode = cfg['sorts'], cfg['auto'], cfg['argmode']
    ctrl, cbs = cfg['ctrl'], {int(k): v for k, v in cfg['cb'].items()}
    nv = [0]

    def num(name, lo_strict=True):
        i = nv[0]
        nv[0] += 1
        return sym_num('%s%d' % (name, i), sort_of(sorts, i), 0, None, lo_strict)

    ref = TimerRef(env, auto)
    box = {}
    if argmode == 'list':
        exp_args = [sym_int('a0'), sym_int('a1')]
        given = list(exp_args)
    elif argmode == 'scalar':
        exp_args = [sym_int('a0')]
        given = exp_args[0]
    elif argmode in ('str', 'empty-str', 'bytes'):
        # scalar arguments that happen to be sequences themselves
        given = {'str': 'h1', 'empty-str': '', 'bytes': b'xy'}[argmode]
        exp_args = [given]
    elif argmode == 'tuple':
        exp_args = [sym_int('a0'), sym_int('a1')]
        given = tuple(exp_args)
    else:
        exp_args = []
        given = None
    exp_kw = {'k': sym_int('kw')} if cfg.get('kwargs') else {}

    def call(what, tau=None):
        try:
            if what == 'stop':
                box['timer'].stop()
            else:
                box['timer'].restart(tau)
        except Exception as ex:  # noqa
            fail('c19.no-raise', '%s() raised %s: %s' % (what, type(ex).__name__, ex))

    def cb(*args, **kw):
        check('c19.kwargs', set(kw) == set(exp_kw) and all(eq(kw[k], v) for k, v in exp_kw.items()), sorted(kw))
        ref.in_cb = True
        try:
            if ref.nfired >= cfg.get('max_fire', 99):
                # outside the stated bound on the number of firings: discard this input region
                from symx import assume
                assume(False)
                box['timer'].stop()
                return
            ref.fired(args, exp_args)
            obs('fire', env.now)
            act = cbs.get(ref.nfired)
            if act == 'stop':
                ref.stop()
                call('stop')
            elif act == 'restart':
                tau = num('ct')
                ref.restart(tau)
                call('restart', tau)
        finally:
            ref.in_cb = False
        return cfg.get('cb_returns')     # whatever the callback returns is its own business (a predicate may return False)

    def controller():
        yield env.timeout(num('t0', lo_strict=False))
        T = num('T')
        try:
            if exp_kw:
                box['timer'] = Timer(env, T, cb, auto_restart=auto, args=given, kwargs=dict(exp_kw))
            else:
                box['timer'] = Timer(env, T, cb, auto_restart=auto, args=given)
        except Exception as ex:  # noqa
            fail('c19.no-raise', 'Timer() raised %s: %s' % (type(ex).__name__, ex))
            return
        ref.created(T)
        if cfg.get('twin'):
            # a second, independent one-shot timer in the same environment that nobody stops or restarts
            T2 = num('T2')
            box['twin_due'] = env.now + T2
            box['twin'] = Timer(env, T2, lambda *a: box.setdefault('twin_fired', []).append((env.now, a)), args=[7])
        for act in ctrl:
            yield env.timeout(num('g', lo_strict=False))
            if act == 'stop':
                ref.stop()
                call('stop')
            else:
                tau = num('tau')
                ref.restart(tau)
                call('restart', tau)
            obs('ctrl', act, env.now)

    env.process(controller())
    try:
        env.run()
    except Exception as ex:  # noqa
        fail('c19.no-raise', 'run() raised %s: %s' % (type(ex).__name__, ex))
        return
    ref.finish()
    if 'twin' in box:
        tf = box.get('twin_fired', [])
        check('c19.instances-independent', len(tf) == 1 and tf[0][1] == (7,), str(tf)[:80])
        if len(tf) == 1:
            check('c19.instances-independent', eq(tf[0][0], box['twin_due']), 'twin fired at another instant')
        cover('two-instances')
    cover('nontrivial')


HARNESSES = {'timer': h_timer}


def VIOL_KEY(cfg):
    return '%s/%s' % (cfg['argmode'], 'cb' if cfg['cb'] else 'ctrl')


def jobs(tier, seed):
    js = []
    shapes = []
    # one-shot
    shapes += [(False, [], {}), (False, ['stop'], {}), (False, ['restart'], {}), (False, ['restart', 'stop'], {}),
               (False, ['restart', 'restart'], {}), (False, ['stop', 'restart'], {}),
               (False, [], {1: 'restart'}), (False, [], {1: 'restart', 2: 'restart'}), (False, [], {1: 'stop'}),
               (False, ['restart'], {1: 'restart'}), (False, ['stop'], {1: 'restart'})]
    # auto-restart (always ends with a stop so that the run is finite)
    shapes += [(True, ['stop'], {}), (True, ['restart', 'stop'], {}), (True, [], {2: 'stop'}),
               (True, [], {1: 'restart', 3: 'stop'}), (True, ['restart'], {3: 'stop'})]
    if tier != 'quick':
        shapes += [(False, ['restart', 'restart', 'stop'], {}), (False, ['restart', 'stop', 'restart'], {}),
                   (False, ['restart', 'restart'], {1: 'restart', 2: 'restart'}),
                   (True, ['restart', 'restart', 'stop'], {}), (True, ['restart', 'stop'], {1: 'restart'}),
                   (True, ['stop'], {1: 'restart', 2: 'restart'}),
                   # four controller calls; stop and restart mixed between the controller and the callback
                   (False, ['restart', 'stop', 'restart', 'stop'], {}), (False, ['stop', 'stop', 'restart', 'restart'], {}),
                   (False, ['restart', 'restart', 'restart'], {1: 'stop'}), (False, ['stop', 'restart'], {1: 'restart', 2: 'stop'}),
                   (True, ['restart', 'stop', 'restart', 'stop'], {}), (True, ['restart', 'restart'], {2: 'restart', 4: 'stop'}),
                   (True, ['stop', 'restart'], {1: 'restart', 3: 'stop'}), (True, [], {1: 'restart', 2: 'restart', 3: 'restart', 4: 'stop'})]
    for si, (auto, ctrl, cb) in enumerate(shapes):
        bounded = (not auto) or ('stop' in ctrl and False) or any(v == 'stop' for v in cb.values())
        for argmode in ('list', 'scalar') if si % 3 != 2 else ('none', 'scalar'):
            for sorts in (('int', 'real') if tier != 'quick' else ('int' if si % 2 else 'real',)):
                cfg = {'auto': auto, 'ctrl': ctrl, 'cb': {str(k): v for k, v in cb.items()}, 'argmode': argmode,
                       'sorts': sorts}
                opts = {}
                if auto:
                    cfg['max_fire'] = 3 if tier == 'quick' else 4
                js.append({'harness': 'timer', 'cfg': cfg, 'weight': 20 if auto else 5, 'opts': opts})
    # callbacks that return something
    for val in (False, 0, True):
        js.append({'harness': 'timer', 'weight': 20,
                   'cfg': {'auto': True, 'ctrl': ['stop'], 'cb': {}, 'argmode': 'scalar', 'sorts': 'int', 'max_fire': 3, 'cb_returns': val}})
    # scalar arguments that are sequences themselves (strings, bytes)
    for argmode in ('str', 'empty-str', 'bytes'):
        js.append({'harness': 'timer', 'weight': 5,
                   'cfg': {'auto': False, 'ctrl': ['restart'], 'cb': {}, 'argmode': argmode, 'sorts': 'int'}})
    # two timers in one environment: controlling one never affects the other
    for auto, ctrl, cb in ((False, ['stop'], {}), (False, ['restart'], {1: 'restart'}), (True, ['restart', 'stop'], {})):
        cfg = {'auto': auto, 'ctrl': ctrl, 'cb': {str(k): v for k, v in cb.items()}, 'argmode': 'list', 'sorts': 'int', 'twin': True}
        if auto:
            cfg['max_fire'] = 3
        js.append({'harness': 'timer', 'cfg': cfg, 'weight': 20})
    for auto, ctrl, cb in ((False, ['restart'], {}), (True, [], {1: 'restart', 3: 'stop'})):
        for argmode, kw in (('tuple', False), ('list', True), ('none', True)):
            cfg = {'auto': auto, 'ctrl': ctrl, 'cb': {str(k): v for k, v in cb.items()}, 'argmode': argmode, 'kwargs': kw,
                   'sorts': 'int'}
            if auto:
                cfg['max_fire'] = 3
            js.append({'harness': 'timer', 'cfg': cfg, 'weight': 5})
    return js


META = {
    'rule': 'one case = one feasible path of a (timer, controller, callback) script: an order-type of creation, expiry, '
            'stop and restart instants',
    'required_labels': ['c19.fires-at-expiry', 'c19.args', 'c19.not-overdue'],
    'required_covers': ['nontrivial', 'fired', 'stop', 'restart-pending', 'restart-from-callback', 'two-instances'],
    'bounds': {'quick': '16 scripts: one-shot and auto-restart, <= 2 controller calls, <= 2 callback-issued calls; all instants, timeouts, '
                        'taus symbolic and unbounded; auto-restart timers: input regions with more than 3 firings are outside the bound; str / bytes scalar arguments; callbacks returning False / 0 / True; two timers side by side',
               'thorough': '30 scripts, <= 4 controller calls; auto-restart <= 4 firings'},
    'assumptions': ['restart() from outside on a one-shot timer that has already fired is not determined by the statement: after '
                    'it only no-raise and argument equality are asserted',
                    'calls at exactly an expiry instant are resolved in the order in which the kernel performs them'],
    'stubs': [],
    'outside': ['more calls than the bound; kwargs'],
}

MANIFEST = {
    'level_text': 'Bounded model checking by symbolic execution of the real Timer against a reference model from the '
                  'statement; all relative orders and coincidences of expiry, stop and restart instants of each script are '
                  'solver-enumerated paths.',
    'level_note': 'Trusted: z3, symx proxies (validated by concrete witness replay); scripts bounded; auto-restart timers: at most 3 (quick) / 4 (thorough) firings per run.',
}
