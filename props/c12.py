"""C12 -- schedulers: work-conserving, non-preemptive, rate-exact, per-flow FIFO, counters, Monitor."""
import random
from fractions import Fraction

from symx import (sym_num, sym_int, check, obs, cover, eq, ge, le, lt, gt, fail, Ite, smax, And, Or, Not, ssum)
from props.netcommon import DrawStub, step_all
from props.sched_common import SchedRun, KINDS, flow_patterns

PROPERTY = 'C12'
INF = float('inf')

TABLES = {
    'SP': {0: 1, 1: 2}, 'WFQ': {0: 1, 1: 2}, 'VC': {0: 1, 1: 2}, 'DRR': {0: 1, 1: 2},
    'RR': {0: 1, 1: 1}, 'WRR': {0: 1, 1: 2},
}


def h_wc(cfg):
    r = SchedRun(cfg)
    if not r.run():
        return
    if cfg.get('no_out'):
        # nothing is attached downstream: the packets are transmitted all the same (and go nowhere)
        check('c12.idle-at-end', r.sched.packet_in_service is None)
        check('c12.total-packets-zero', eq(r.sched.total_packets, 0))
        for f in sorted(set(r.flows)):
            check('c12.size-counter', eq(r.sched.size(f), 0), ('end', f))
        cover('no-downstream')
        cover('nontrivial')
        return
    if r.check_all_depart_once():
        r.check_fifo_per_flow()
        r.check_work_conserving()
        r.check_twin()
        check('c12.idle-at-end', r.sched.packet_in_service is None)
        check('c12.total-packets-zero', eq(r.sched.total_packets, 0))
    if r.n >= 2:
        cover('nontrivial')
    if cfg.get('flow2class'):
        cover('classmap')


def h_monitor(cfg):
    from onl.scheduler import Monitor
    incl, nsamp = cfg['incl'], cfg['nsamp']
    box = {}
    seen = {}

    def after_step():
        mon = box['mon']
        r = box['r']
        for f in list(mon.sizes.keys()):
            while seen.get(f, 0) < len(mon.sizes[f]):
                i = seen.get(f, 0)
                seen[f] = i + 1
                mine = [p for p in r.held if p.flow_id == f]
                svc = r.sched.packet_in_service
                insvc = [p for p in mine if p is svc]
                if incl:
                    exp_n, exp_b = len(mine), ssum([p.size for p in mine])
                else:
                    exp_n = len(mine) - len(insvc)
                    exp_b = ssum([p.size for p in mine if p is not svc])
                check('c12.monitor-count', eq(mon.sizes[f][i], exp_n), (f, i, incl))
                check('c12.monitor-bytes', eq(mon.byte_sizes[f][i], exp_b), (f, i, incl))
                if insvc:
                    cover('monitor-sample-with-service')
                if mine:
                    cover('nontrivial')
                obs('sample', f, i, mon.sizes[f][i], mon.byte_sizes[f][i])

    r = SchedRun(cfg, stepping=True, after_step=after_step)
    box['r'] = r
    dist = DrawStub('m', cfg['sorts'], lo=0, n=nsamp, after=INF, lo_strict=True)
    box['mon'] = Monitor(r.env, r.sched, dist, service_included=incl)
    r.run()


HARNESSES = {'wc': h_wc, 'monitor': h_monitor}


def VIOL_KEY(cfg):
    return '%s/%s' % (cfg.get('kind'), 'classmap' if cfg.get('flow2class') else 'identity')


def jobs(tier, seed):
    rng = random.Random(2000 + int(seed))
    js = []
    n = 3 if tier == 'quick' else 4
    for kind in KINDS:
        pats = flow_patterns(n, 2, tier, rng)
        if tier == 'quick':
            pats = pats[:3]
        for pi, pat in enumerate(pats):
            for sort in (('int', 'real') if pi < (1 if tier == 'quick' else 4) else ('int',)):
                cfg = {'kind': kind, 'rate': 8, 'table': TABLES[kind], 'flows': pat, 'sorts': sort}
                if kind == 'WFQ':
                    cfg['float_inexact'] = True
                if kind == 'DRR':
                    cfg['smax'] = 3200
                js.append({'harness': 'wc', 'cfg': cfg, 'weight': 10})
        # one burst workload and one longer single-sort workload per discipline
        cfg = {'kind': kind, 'rate': 8, 'table': TABLES[kind], 'flows': [0, 1, 1, 0][:n + 1], 'sorts': 'int',
               'burst': [0, 1, 0, 1][:n + 1]}
        if kind == 'WFQ':
            cfg['float_inexact'] = True
        if kind == 'DRR':
            cfg['smax'] = 3200
        js.append({'harness': 'wc', 'cfg': cfg, 'weight': 30})
    # longer workloads with few timing variables: two bursts of four packets (effects that need several packets to show)
    for kind in KINDS:
        m = 6 if (tier == 'quick' and kind in ('DRR', 'WFQ')) else 8
        cfg = {'kind': kind, 'rate': 8, 'table': TABLES[kind], 'flows': [0, 1, 0, 1, 1, 0, 0, 1][:m], 'sorts': 'int',
               'burst': [0, 1, 1, 1, 0, 1, 1, 1][:m], 'smax': 2 if kind != 'DRR' else 1600}
        if kind == 'WFQ':
            cfg['float_inexact'] = True
        js.append({'harness': 'wc', 'cfg': cfg, 'weight': 60, 'opts': {'max_paths': 20000}})
    # arrivals in the very instant a transmission ends, after the delivery (late wake-up)
    for kind in KINDS:
        cfg = {'kind': kind, 'rate': 8, 'table': TABLES[kind], 'flows': [0, 1, 0, 1], 'sorts': 'int', 'split_gap': [1, 3],
               'smax': 3 if kind != 'DRR' else 1600}
        if kind == 'WFQ':
            cfg['float_inexact'] = True
        js.append({'harness': 'wc', 'cfg': cfg, 'weight': 40, 'opts': {'max_paths': 8000}})
    # a scheduler without anything attached to its output
    for kind in KINDS:
        cfg = {'kind': kind, 'rate': 8, 'table': TABLES[kind], 'flows': [0, 1, 0], 'sorts': 'int', 'no_out': True, 'smax': 3}
        if kind == 'WFQ':
            cfg['float_inexact'] = True
        js.append({'harness': 'wc', 'cfg': cfg, 'weight': 10})
    # zero-length packets are packets (sizes drawn as int(expovariate) can be 0): seven of them in one burst, six of one flow -
    # equal stamps must not cost the per-flow order
    for kind in KINDS:
        cfg = {'kind': kind, 'rate': 8, 'table': TABLES[kind], 'flows': [0, 0, 1, 0, 0, 0, 0], 'sorts': 'int', 'burst': [0] + [1] * 6,
               'smin': 0, 'smax': 1}
        if kind == 'WFQ':
            cfg['float_inexact'] = True
        js.append({'harness': 'wc', 'cfg': cfg, 'weight': 40, 'opts': {'max_paths': 4000}})
    # two instances of one scheduler class in one environment (they share nothing)
    for kind in KINDS:
        cfg = {'kind': kind, 'rate': 8, 'table': TABLES[kind], 'flows': [0, 1, 0, 1], 'sorts': 'int', 'twin': True,
               'burst': [0, 1, 0, 1]}
        if kind == 'WFQ':
            cfg['float_inexact'] = True
        if kind == 'DRR':
            cfg['smax'] = 3200
        js.append({'harness': 'wc', 'cfg': cfg, 'weight': 30})
    # other line rates (dyadic 64, and 24 where 8*size/rate is not dyadic)
    for kind in KINDS:
        for rate in (64, 24):
            cfg = {'kind': kind, 'rate': rate, 'table': TABLES[kind], 'flows': [0, 1, 0], 'sorts': 'int'}
            if kind == 'WFQ' or rate == 24:
                cfg['float_inexact'] = True
            if kind == 'DRR':
                cfg['smax'] = 3200
            js.append({'harness': 'wc', 'cfg': cfg, 'weight': 10})
    # several flows mapped onto one class (schedulers that take a flow-to-class map)
    for kind in ('SP', 'WFQ', 'VC', 'DRR'):
        for pat in ([5, 6, 5], [5, 5, 6]) if tier == 'quick' else ([5, 6, 5, 6], [5, 5, 6, 6], [6, 5, 5, 5]):
            cfg = {'kind': kind, 'rate': 8, 'table': {7: 1}, 'flows': pat, 'sorts': 'int',
                   'flow2class': {5: 7, 6: 7}}
            if kind == 'DRR':
                cfg['smax'] = 3200
            js.append({'harness': 'wc', 'cfg': cfg, 'weight': 8})
    for kind in KINDS:
        for incl in (True, False):
            cfg = {'kind': kind, 'rate': 8, 'table': TABLES[kind], 'flows': [0, 1] if tier == 'quick' else [0, 1, 0],
                   'sorts': 'int', 'incl': incl, 'nsamp': 2}
            if kind == 'WFQ':
                cfg['float_inexact'] = True
            if kind == 'DRR':
                cfg['smax'] = 3200
            js.append({'harness': 'monitor', 'cfg': cfg, 'weight': 12})
    # flow ids beyond the interpreter's small-int cache (every packet carries its own, equal, id object)
    for kind in ('WFQ', 'SP'):
        for incl in (True, False):
            cfg = {'kind': kind, 'rate': 8, 'table': {4001: 1, 70000: 2}, 'flows': [4001, 70000], 'sorts': 'int', 'incl': incl, 'nsamp': 2}
            if kind == 'WFQ':
                cfg['float_inexact'] = True
            js.append({'harness': 'monitor', 'cfg': cfg, 'weight': 12})
    js.append({'harness': 'wc', 'weight': 10,
               'cfg': {'kind': 'DRR', 'rate': 8, 'table': {4001: 1, 70000: 2}, 'flows': [4001, 70000, 4001], 'sorts': 'int', 'smax': 3200}})
    # Monitor on a scheduler with several flows mapped onto one class (samples stay per flow)
    for kind in ('SP', 'WFQ', 'VC', 'DRR'):
        for incl in (True, False):
            cfg = {'kind': kind, 'rate': 8, 'table': {7: 1}, 'flows': [5, 6] if tier == 'quick' else [5, 6, 5], 'sorts': 'int',
                   'flow2class': {5: 7, 6: 7}, 'incl': incl, 'nsamp': 2}
            if kind == 'DRR':
                cfg['smax'] = 3200
            js.append({'harness': 'monitor', 'cfg': cfg, 'weight': 12})
    return js


META = {
    'rule': 'one case = one feasible path of a scheduler workload (sizes, gaps, sampling intervals symbolic; flow pattern '
            'and tables concrete); non-trivial = at least two packets / a sample taken while packets were queued',
    'required_labels': ['c12.work-conserving-rate-exact', 'c12.per-flow-fifo', 'c12.each-once', 'c12.size-counter',
                        'c12.byte-counter', 'c12.monitor-count', 'c12.monitor-bytes'],
    'required_covers': ['nontrivial', 'classmap', 'monitor-sample-with-service', 'two-instances', 'no-downstream'],
    'bounds': {'quick': 'six schedulers; n=3 packets (one 4-packet burst workload each), 2 flows, 3 flow patterns; rate 8; '
                        'tables {1,2}; class map {5->7, 6->7}; monitor: 2 packets, 2 samples; zero-length bursts; two instances side by side; no downstream device; flow ids beyond the small-int cache; late wake-ups (arrival after a departure of the same instant); two-burst workloads of 6-8 packets',
               'thorough': 'n=4, all flow patterns over 2 flows; class-map workloads of 4; monitor 3 packets'},
    'assumptions': ['arrivals come from one source, hence in non-decreasing time order',
                    'Monitor "in service" is what Scheduler.packet_in_service shows at the sampling step'],
    'stubs': ['Monitor dist -> symbolic positive intervals, then +inf'],
    'outside': ['more packets/flows than the bound', 'rates and tables outside the concrete grid', 'float rounding'],
}

MANIFEST = {
    'level_text': 'Bounded model checking by symbolic execution of the six real schedulers: the discipline-independent '
                  'equation D_k - 8*size/rate == max(D_{k-1}, A_k), per-flow FIFO, exactly-once and the public counters '
                  'are proved for every size/gap valuation of each bounded workload.',
    'level_note': 'Trusted: z3, symx proxies (validated by concrete witness replay; WFQ configurations with a weight sum of 3 '
                  'are compared with tolerance / skipped on float-only ties); workload length, flow patterns and tables bounded.',
}
