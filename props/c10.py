"""C10 -- wire: delay law, order, loss only by rate; Cable = two independent wires."""
from symx import (choice, sym_num, sym_int, sym_real, check, obs, cover, eq, ge, le, lt, gt, fail, Ite, smax,
                  And, Or, Not, Implies)
from props.netcommon import Rec, mk_packet

PROPERTY = 'C10'


class WireEnv:
    """delay / loss stubs that remember which wire process asked."""

    def __init__(self, env, sort):
        self.env = env
        self.sort = sort
        self.delays = []   # (value, process)
        self.losses = []

    def delay_dist(self):
        v = sym_num('d%d' % len(self.delays), self.sort, 0)
        self.delays.append((v, self.env.active_process))
        return v

    def uniform(self, a, b):
        v = sym_real('u%d' % len(self.losses), a, b)
        self.losses.append((v, self.env.active_process))
        return v


def wire_law(tag, wire_proc, entries, delivered_log, stubs, loss_rate, has_loss):
    """entries: [(pkt, a_k)] in entry order; delivered_log: [(pkt, t)] at the far end."""
    delays = [v for v, pr in stubs.delays if pr is wire_proc]
    losses = [v for v, pr in stubs.losses if pr is wire_proc]
    ids = [id(p) for p, _ in delivered_log]
    check(tag + '.delivered-at-most-once', len(set(ids)) == len(ids))
    known = {id(p) for p, _ in entries}
    check(tag + '.nothing-invented', all(i in known for i in ids))
    surv = [(p, a) for (p, a) in entries if id(p) in ids]
    check(tag + '.order-preserved', [id(p) for p, _ in surv] == ids)
    if not has_loss:
        check(tag + '.no-loss-without-rate', len(surv) == len(entries))
        check(tag + '.no-draw-without-rate', len(losses) == 0)
    else:
        check(tag + '.one-loss-draw-per-packet', len(losses) == len(entries))
        if len(losses) == len(entries):
            for (p, a), u in zip(entries, losses):
                if id(p) in ids:
                    check(tag + '.loss-rule', ge(u, loss_rate), 'delivered although u < p')
                else:
                    check(tag + '.loss-rule', le(u, loss_rate), 'lost although u > p')
                    cover('lost')
    # the delay may be drawn only for surviving packets (j-th draw = j-th survivor) or for every packet that enters
    # (k-th draw = k-th packet): both conventions implement the same law
    if len(delays) == len(entries) and len(entries) != len(surv):
        delays = [d for (p, a), d in zip(entries, delays) if id(p) in ids]
        cover('delay-drawn-for-lost-packets-too')
    check(tag + '.one-delay-draw-per-packet', len(delays) == len(surv), (len(delays), len(surv), len(entries)))
    if len(delays) == len(surv) and [id(p) for p, _ in surv] == ids:
        prev = None
        for (p, a), d, (_, t) in zip(surv, delays, delivered_log):
            exp = a + d if prev is None else smax(a + d, prev)
            check(tag + '.delivery-time', eq(t, exp), p.packet_id)
            prev = t
            obs('deliver', p.packet_id, t)


def h_wire(cfg):
    from onl.sim import Environment
    from onl.packet import Packet
    from onl.netdev import Wire
    import onl.netdev.wire as wm
    env = Environment()
    n, sort, loss = cfg['n'], cfg['sorts'], cfg['loss']
    st = WireEnv(env, sort)
    if loss == 'none':
        p = None
    elif loss == 'zero':
        p = 0
    else:
        p = sym_real('p', 0, 1)
    saved = wm.random
    wm.random = st
    try:
        wire = Wire(env, st.delay_dist, loss_rate=p)
        rec = Rec(env)
        wire.out = rec
        entries = []
        twin = None
        if cfg.get('twin'):
            # a second, independent wire in the same environment carrying other packets (its own draws)
            twin = Wire(env, st.delay_dist, loss_rate=p)
            twin_rec = Rec(env)
            twin.out = twin_rec
            twin_entries = []

        def source():
            for k in range(n):
                if not (cfg.get('burst') and cfg['burst'][k]):
                    yield env.timeout(sym_num('g%d' % k, sort, 0))
                pkt = mk_packet(Packet, env.now, sym_int('s%d' % k, 1), k)
                entries.append((pkt, env.now))
                wire.put(pkt)
                if twin is not None and k % 2 == 0:
                    q = mk_packet(Packet, env.now, 1, 1000 + k)
                    twin_entries.append((q, env.now))
                    twin.put(q)

        env.process(source())
        try:
            env.run()
        except Exception as ex:  # noqa
            fail('no-raise', '%s: %s' % (type(ex).__name__, ex))
            return
    finally:
        wm.random = saved
    has_loss = loss == 'sym' and len(st.losses) > 0
    if loss == 'sym' and not has_loss:
        # the code took the "no loss rate" branch: only legal when p == 0
        check('c10.loss-rate-ignored-only-if-zero', eq(p, 0))
    wire_law('c10', wire.action, entries, rec.log, st, p, has_loss)
    if twin is not None:
        tl = loss == 'sym' and any(pr is twin.action for _, pr in st.losses)
        if loss == 'sym' and not tl:
            check('c10.loss-rate-ignored-only-if-zero', eq(p, 0), 'twin')
        wire_law('c10.twin', twin.action, twin_entries, twin_rec.log, st, p, tl)
        cover('two-instances')
    if len(rec.log) >= 2 or len(rec.log) < n:
        cover('nontrivial')


def h_reenter(cfg):
    """the very same packet object enters the wire again while an earlier entry of it is still inside (a sender that
    retransmits the object it keeps, a hub repeating one object): every entry is a packet on the wire in its own right"""
    from onl.sim import Environment
    from onl.packet import Packet
    from onl.netdev import Wire
    import onl.netdev.wire as wm
    env = Environment()
    sort = cfg['sorts']
    st = WireEnv(env, sort)
    saved = wm.random
    wm.random = st
    try:
        wire = Wire(env, st.delay_dist)
        rec = Rec(env)
        wire.out = rec
        pk = [mk_packet(Packet, 0, 1, i) for i in range(3)]
        seq = [pk[i] for i in cfg['objects']]          # e.g. [0, 1, 1]: the second object enters twice
        entries = []

        def source():
            for k, p in enumerate(seq):
                yield env.timeout(sym_num('g%d' % k, sort, 0))
                entries.append((p, env.now))
                wire.put(p)

        env.process(source())
        try:
            env.run()
        except Exception as ex:  # noqa
            fail('no-raise', '%s: %s' % (type(ex).__name__, ex))
            return
    finally:
        wm.random = saved
    delays = [v for v, pr in st.delays if pr is wire.action]
    check('c10.nothing-lost', len(rec.log) == len(entries) and all(a is b for (a, _), (b, _) in zip(rec.log, entries)),
          ([p.packet_id for p, _ in rec.log], [p.packet_id for p, _ in entries]))
    if len(rec.log) == len(entries) and len(delays) == len(entries):
        prev = None
        for k, ((p, a), d, (_, t)) in enumerate(zip(entries, delays, rec.log)):
            exp = a + d if prev is None else smax(a + d, prev)
            check('c10.delivery-time', eq(t, exp), 'entry %d (object %d)' % (k, p.packet_id))
            prev = t
    cover('same-object-twice')
    cover('nontrivial')


def h_bulk(cfg):
    """several thousand packets inside one wire at the same time (a long fat pipe): everything concrete except the common
    delay, which the solver picks from a small set - a plain long run, there is nothing to fork on"""
    from onl.sim import Environment
    from onl.packet import Packet
    from onl.netdev import Wire
    env = Environment()
    n = cfg['n']
    d = [n + 10, 2 * n][choice('delay', 2)]
    wire = Wire(env, lambda: d)
    rec = Rec(env)
    wire.out = rec
    ent = []

    def source():
        for k in range(n):
            yield env.timeout(1)
            p = mk_packet(Packet, env.now, 1, k)
            ent.append((p, env.now))
            wire.put(p)

    env.process(source())
    try:
        env.run()
    except Exception as ex:  # noqa
        fail('no-raise', '%s: %s' % (type(ex).__name__, ex))
        return
    ok = len(rec.log) == n and all(a is b and t == at + d for (a, at), (b, t) in zip(ent, rec.log))
    bad = next((k for k, ((a, at), (b, t)) in enumerate(zip(ent, rec.log)) if not (a is b and t == at + d)), None)
    check('c10.delivery-time', ok, 'delivered %d of %d; first deviation at packet %s' % (len(rec.log), n, bad))
    cover('thousands-in-flight')
    cover('nontrivial')


def h_cable(cfg):
    from onl.sim import Environment
    from onl.packet import Packet
    from onl.netdev import Cable
    import onl.netdev.wire as wm
    env = Environment()
    n, sort = cfg['n'], cfg['sorts']
    st = WireEnv(env, sort)
    saved = wm.random
    wm.random = st
    try:
        p = sym_real('p', 0, 1) if cfg.get('loss') else None
        cable = Cable(env, st.delay_dist, loss_rate=p) if cfg.get('loss') else Cable(env, st.delay_dist)
        a, b = Rec(env, 'A'), Rec(env, 'B')
        cable.set_endpoints(a, b)
        ent = {'A': [], 'B': []}

        def source(dev, name, off):
            for k in range(n):
                yield env.timeout(sym_num('g%s%d' % (name, k), sort, 0))
                pkt = mk_packet(Packet, env.now, sym_int('s%s%d' % (name, k), 1), off + k, src=name)
                ent[name].append((pkt, env.now))
                dev.out.put(pkt)

        env.process(source(a, 'A', 0))
        env.process(source(b, 'B', 100))
        try:
            env.run()
        except Exception as ex:  # noqa
            fail('no-raise', '%s: %s' % (type(ex).__name__, ex))
            return
    finally:
        wm.random = saved
    lossy = bool(cfg.get('loss'))
    check('c10.cable-A-to-B-only', all(q.src == 'A' for q, _ in b.log) and (lossy or len(b.log) == n))
    check('c10.cable-B-to-A-only', all(q.src == 'B' for q, _ in a.log) and (lossy or len(a.log) == n))
    w_ab = a.out
    w_ba = b.out
    check('c10.cable-two-wires', w_ab is not w_ba)
    for tag, w, ents, log in (('c10.ab', w_ab, ent['A'], b.log), ('c10.ba', w_ba, ent['B'], a.log)):
        has_loss = lossy and any(pr is w.action for _, pr in st.losses)
        if lossy and not has_loss:
            # this direction never drew: only legal when the loss rate is 0
            check('c10.loss-rate-ignored-only-if-zero', eq(p, 0), tag)
        wire_law(tag, w.action, ents, log, st, p, has_loss)
    cover('nontrivial')


HARNESSES = {'wire': h_wire, 'cable': h_cable, 'reenter': h_reenter, 'bulk': h_bulk}


def jobs(tier, seed):
    js = []
    n = 3 if tier == 'quick' else 4
    for sort in ('int', 'real'):
        for loss in ('none', 'zero', 'sym'):
            js.append({'harness': 'wire', 'cfg': {'n': n, 'sorts': sort, 'loss': loss},
                       'weight': 10 if loss == 'sym' else 3})
    js.append({'harness': 'wire', 'cfg': {'n': n + 1, 'sorts': 'int', 'loss': 'none'}, 'weight': 20})
    for loss in ('none', 'sym'):
        js.append({'harness': 'wire', 'cfg': {'n': 3 if loss == 'none' else 2, 'sorts': 'int', 'loss': loss, 'twin': True}, 'weight': 30})
    js.append({'harness': 'bulk', 'cfg': {'n': 4500 if tier == 'quick' else 20000}, 'weight': 60})
    for objs in ([0, 1, 1], [0, 0, 1], [0, 1, 0]):
        js.append({'harness': 'reenter', 'cfg': {'objects': objs, 'sorts': 'int'}, 'weight': 20})
    # longer workloads: bursts entering the wire at one instant (reordering / loss-draw binding over several packets)
    m = 6 if tier == 'quick' else 7
    js.append({'harness': 'wire', 'weight': 30, 'opts': {'max_paths': 20000},
               'cfg': {'n': m, 'sorts': 'int', 'loss': 'none', 'burst': [0, 1, 1, 0, 1, 1, 1][:m]}})
    js.append({'harness': 'wire', 'weight': 30, 'opts': {'max_paths': 20000},
               'cfg': {'n': m - 1, 'sorts': 'int', 'loss': 'sym', 'burst': [0, 1, 1, 0, 1, 1][:m - 1]}})
    for sort in ('int', 'real') if tier != 'quick' else ('int',):
        js.append({'harness': 'cable', 'cfg': {'n': 2, 'sorts': sort}, 'weight': 30})
    js.append({'harness': 'cable', 'cfg': {'n': 1 if tier == 'quick' else 2, 'sorts': 'int', 'loss': True}, 'weight': 30})
    if tier != 'quick':
        js.append({'harness': 'wire', 'cfg': {'n': 5, 'sorts': 'int', 'loss': 'sym'}, 'weight': 400, 'opts': {'max_paths': 60000}})
        js.append({'harness': 'wire', 'cfg': {'n': 6, 'sorts': 'real', 'loss': 'none'}, 'weight': 400, 'opts': {'max_paths': 60000}})
        js.append({'harness': 'cable', 'cfg': {'n': 3, 'sorts': 'int'}, 'weight': 400, 'opts': {'max_paths': 60000}})
    return js


META = {
    'rule': 'one case = one feasible path of a wire workload (gaps, delay draws, loss draws, loss rate symbolic); '
            'non-trivial = at least two deliveries or at least one loss',
    'required_labels': ['c10.delivery-time', 'c10.loss-rule', 'c10.order-preserved', 'c10.ab.delivery-time',
                        'c10.ba.delivery-time', 'c10.cable-A-to-B-only'],
    'required_covers': ['nontrivial', 'lost', 'two-instances', 'same-object-twice', 'thousands-in-flight'],
    'bounds': {'quick': 'n=3 packets (4 without loss); cable 2+2 packets; gaps, delays >= 0 unbounded Int/Real; loss rate symbolic in [0,1]; two wires side by side; one packet object entering twice; 4500 packets in flight (concrete long run); bursts of 5-6',
               'thorough': 'n=4-5 (5-6 without loss); cable 2+2 and 3+3, up to a path budget'},
    'assumptions': ['draws are bound to packets positionally per wire process: i-th loss draw = i-th packet entering, '
                    'j-th delay draw = j-th surviving packet; u == p left free'],
    'stubs': ['delay_dist -> fresh symbolic delay >= 0 per call', 'onl.netdev.wire.random.uniform -> symbolic draw in [0,1]'],
    'outside': ['more packets than the bound', 'float rounding'],
}

MANIFEST = {
    'level_text': 'Bounded model checking by symbolic execution of the real Wire/Cable: every arrival pattern, delay '
                  'sequence, loss rate and draw sequence for n packets is covered by solver-enumerated paths against '
                  'the max(a+d, previous delivery) law.',
    'level_note': 'Trusted: z3, symx proxies (validated by concrete witness replay); workload length bounded; '
                  'positional binding of draws to packets.',
}
