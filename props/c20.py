"""C20 -- real-time pacing never runs ahead of the wall clock and alters no result."""
from fractions import Fraction

from symx import (sym_num, sym_real, check, obs, cover, eq, ge, le, lt, gt, fail, And, Or, Not)
from props.kcommon import sort_of

PROPERTY = 'C20'
INF = float('inf')


class VClock:
    """virtual wall clock: every reading is the previous one plus an arbitrary amount >= 0;
    sleep() returns early or late (arbitrary advance) a bounded number of times per step, then
    advances by at least the requested amount"""

    def __init__(self, early_per_step):
        self.t = 0
        self.readings = []
        self.nsleep = 0
        self.sleeps_this_step = 0
        self.early = early_per_step

    def monotonic(self):
        self.t = self.t + sym_real('w%d' % len(self.readings), 0)
        self.readings.append(self.t)
        return self.t

    def sleep(self, d):
        i = self.nsleep
        self.nsleep += 1
        self.sleeps_this_step += 1
        extra = sym_real('z%d' % i, 0)
        if self.sleeps_this_step <= self.early:
            self.t = self.t + extra              # may return early (or late)
        else:
            self.t = self.t + d + extra          # eventually sleeps at least as long as asked
        cover('slept')

    def bump(self, name):
        self.t = self.t + sym_real(name, 0)


def program(env, shape, sorts, log, on_effect, consume):
    """P processes, each a chain of symbolic timeouts carrying values"""
    nv = [0]
    delays = shape['delays_cache']

    def body(pi, n):
        for k in range(n):
            key = (pi, k)
            v = yield env.timeout(delays[key], value=(pi, k))
            on_effect(env.now)
            log.append(('p%d' % pi, k, env.now, v))
            consume(pi, k)

    for pi, n in enumerate(shape['procs']):
        env.process(body(pi, n))


def h_rt(cfg):
    from onl.sim import Environment
    from onl.sim.rt import RealtimeEnvironment
    import onl.sim.rt as rtm
    factor = Fraction(cfg['factor'])
    strict = cfg['strict']
    sorts = cfg['sorts']
    procs = cfg['procs']
    t0 = sym_num('t0', sort_of(sorts, 0), 0) if cfg.get('sym_t0') else cfg.get('t0', 0)
    delays = {}
    i = 1
    for pi, n in enumerate(procs):
        for k in range(n):
            delays[(pi, k)] = sym_num('d%d_%d' % (pi, k), sort_of(sorts, i), 0)
            i += 1
    shape = {'procs': procs, 'delays_cache': delays}
    # reference run on the plain Environment
    ref_log = []
    env0 = Environment(initial_time=t0)
    program(env0, shape, sorts, ref_log, lambda now: None, lambda pi, k: None)
    try:
        env0.run()
    except Exception as ex:  # noqa
        fail('no-raise', 'Environment: %s: %s' % (type(ex).__name__, ex))
        return
    # real-time run with the virtual clock
    clock = VClock(cfg['early'])
    saved = (rtm.monotonic, rtm.sleep)
    rtm.monotonic, rtm.sleep = clock.monotonic, clock.sleep
    log = []
    state = {'real_start': None}
    raised = False
    try:
        st = {'step': 0, 'raised': False}

        class Probe(RealtimeEnvironment):
            """the environment under test; step() is wrapped so that steps taken by run() are observed as well"""

            def step(self_):
                n0 = len(clock.readings)
                clock_at_entry = clock.t
                evt = self_.peek()
                clock.sleeps_this_step = 0
                exc = None
                try:
                    RealtimeEnvironment.step(self_)
                except RuntimeError as ex:
                    if 'too slow' in str(ex):
                        st['raised'] = True
                    exc = ex
                except Exception as ex:  # noqa  (StopSimulation, EmptySchedule, failures: judged by the caller)
                    exc = ex
                due = state['real_start'] + (evt - t0) * factor
                # "on turning to the next occurrence": the first clock reading step() takes; an implementation that
                # takes none is judged against the wall clock as it stood when step() was entered
                first = clock.readings[n0] if len(clock.readings) > n0 else clock_at_entry
                too_slow = gt(first - due, factor)
                if st['raised']:
                    check('c20.strict-raise-iff-too-slow', And(strict, too_slow), st['step'])
                    cover('strict-raised')
                    raise exc
                check('c20.strict-raise-iff-too-slow', Not(And(strict, too_slow)), st['step'])
                if not strict:
                    cover('non-strict-lagging', 0)
                st['step'] += 1
                if exc is not None:
                    raise exc

        rt = Probe(initial_time=t0, factor=float(factor) if cfg.get('float_factor') else factor, strict=strict)
        state['real_start'] = clock.readings[-1]

        def on_effect(now):
            # the occurrence due at simulated `now` is taking effect: the wall clock must have reached its due instant
            check('c20.not-ahead-of-wall-clock', ge(clock.t, state['real_start'] + (now - t0) * factor), 'sim time ahead')

        def consume(pi, k):
            clock.bump('c%d_%d' % (pi, k))

        program(rt, shape, sorts, log, on_effect, consume)
        if cfg.get('idle_before_run'):
            clock.bump('idle')          # wall time passes between construction and the first step
        if cfg.get('plan'):
            # driven through run(): segments up to symbolic instants, wall time passing / sync() between the calls
            for oi, op in enumerate(cfg['plan']):
                if op == 'idle':
                    clock.bump('idle%d' % oi)
                elif op == 'sync':
                    rt.sync()
                    state['real_start'] = clock.readings[-1]
                    cover('sync')
                else:
                    until = None
                    if op == 'run-until':
                        # an until-event (run(until=<number>) converts with float(), which has no exact symbolic reading)
                        until = rt.timeout(sym_num('u%d' % oi, sort_of(sorts, oi), 0))
                    try:
                        rt.run(until=until)
                        cover('driven-by-run')
                    except RuntimeError as ex:
                        if 'too slow' in str(ex) and st['raised']:
                            break
                        fail('no-raise', 'RuntimeError: %s' % ex)
                        return
                    except Exception as ex:  # noqa
                        fail('no-raise', '%s: %s' % (type(ex).__name__, ex))
                        return
        else:
            while rt.peek() != INF:
                if st['step'] in cfg.get('sync_at', []):
                    rt.sync()
                    state['real_start'] = clock.readings[-1]
                    cover('sync')
                try:
                    rt.step()
                except RuntimeError as ex:
                    if 'too slow' in str(ex) and st['raised']:
                        break
                    fail('no-raise', 'RuntimeError: %s' % ex)
                    return
                except Exception as ex:  # noqa
                    fail('no-raise', '%s: %s' % (type(ex).__name__, ex))
                    return
        raised = st['raised']
    finally:
        rtm.monotonic, rtm.sleep = saved
    # same event sequence with the same values as Environment (a prefix of it when strict mode raised)
    if raised:
        check('c20.same-sequence', len(log) <= len(ref_log))
    else:
        check('c20.same-sequence', len(log) == len(ref_log), (len(log), len(ref_log)))
    for a, b in zip(log, ref_log):
        check('c20.same-sequence', a[0] == b[0] and a[1] == b[1] and a[3] == b[3], (a[:2], b[:2]))
        check('c20.same-times', eq(a[2], b[2]), a[:2])
    for a in log:
        obs('ev', a[0], a[1], a[2])
    cover('nontrivial')


HARNESSES = {'rt': h_rt}


def VIOL_KEY(cfg):
    return '%s/%s' % (cfg['strict'], cfg['factor'])


def jobs(tier, seed):
    js = []
    shapes = [[1], [2], [1, 1]] if tier == 'quick' else [[1], [2], [1, 1], [2, 1], [3], [2, 2], [1, 1, 1]]
    for procs in shapes:
        for factor in ('1/2', '1', '2'):
            for strict in (True, False):
                cfg = {'procs': procs, 'factor': factor, 'strict': strict, 'sorts': 'real',
                       'early': 1 if tier == 'quick' else 2, 'sym_t0': factor == '1', 'idle_before_run': strict}
                js.append({'harness': 'rt', 'cfg': cfg, 'weight': 4 ** sum(procs)})
    # sync() re-bases the origin: idle wall time before the run, sync at step 0 / 1
    for strict in (True, False):
        for sync_at in ([0], [1], [2], [1, 3]):     # step 2 / 3: after simulated time has advanced
            js.append({'harness': 'rt', 'weight': 20,
                       'cfg': {'procs': [2], 'factor': '1', 'strict': strict, 'sorts': 'real', 'early': 1,
                               'idle_before_run': True, 'sync_at': sync_at}})
    js.append({'harness': 'rt', 'weight': 20,
               'cfg': {'procs': [1, 1], 'factor': '1', 'strict': True, 'sorts': 'int', 'early': 1, 'sym_t0': True}})
    # very large integer clocks (beyond 2**53: exact in ints, not in floats)
    for strict in (True, False):
        js.append({'harness': 'rt', 'weight': 20,
                   'cfg': {'procs': [2], 'factor': '1', 'strict': strict, 'sorts': 'int', 'early': 1, 't0': 2 ** 60 + 1}})
    # driven through run(): one call; several calls with wall time passing and/or sync() in between
    plans = [['idle', 'run'], ['run-until', 'idle', 'run'], ['run-until', 'idle', 'sync', 'run'], ['run-until', 'sync', 'idle', 'run']]
    if tier != 'quick':
        plans += [['run-until', 'sync', 'run-until', 'idle', 'run'], ['sync', 'run-until', 'run-until', 'run']]
    for strict in (True, False):
        for pi, plan in enumerate(plans):
            for factor in ('1', '2') if pi in (1, 2) else ('1',):
                js.append({'harness': 'rt', 'weight': 30,
                           'cfg': {'procs': [2] if tier == 'quick' else [2, 1], 'factor': factor, 'strict': strict, 'sorts': 'real',
                                   'early': 1, 'plan': plan, 'sym_t0': pi == 1}})
    return js


META = {
    'rule': 'one case = one feasible path: an order-type of program delays together with a behaviour of the virtual wall '
            'clock (time consumed between readings, early/late sleep returns)',
    'required_labels': ['c20.not-ahead-of-wall-clock', 'c20.strict-raise-iff-too-slow', 'c20.same-sequence', 'c20.same-times'],
    'required_covers': ['nontrivial', 'strict-raised', 'slept', 'sync', 'driven-by-run'],
    'bounds': {'quick': 'programs of <= 2 occurrences (1-2 processes), factor in {1/2,1,2}, strict and non-strict, <= 1 early sleep '
                        'return per step, symbolic initial time, sync() before step 0/1/2/3; driven by step() loops and by one or several run()/run(until) calls with idle wall time and sync() between them; steps taken inside run() / run(until=event) observed by a probing subclass; integer clock 2**60 + 1',
               'thorough': '<= 3 occurrences, <= 2 early returns per step'},
    'assumptions': ['monotonic(): previous reading plus an arbitrary amount >= 0; sleep(d): arbitrary advance >= 0 for the first r '
                    'calls of a step, then >= d', '"on turning to the next occurrence" = the first clock reading step() takes'],
    'stubs': ['onl.sim.rt.monotonic', 'onl.sim.rt.sleep'],
    'outside': ['the real time.monotonic / time.sleep', 'longer programs'],
}

MANIFEST = {
    'level_text': 'Bounded model checking by symbolic execution of the real RealtimeEnvironment with the wall clock as a '
                  'symbolic, arbitrary non-decreasing function: pacing inequality, strict-mode raise condition (decided at its '
                  'boundary) and trace equality with Environment proved per path.',
    'level_note': 'Trusted: z3, symx proxies (validated by concrete witness replay); clock and sleep replaced by contract-only '
                  'stubs; programs <= 3 occurrences.',
}
