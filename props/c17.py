"""C17 -- TCP sends only inside its window and adapts it by the Reno/CUBIC rules."""
from fractions import Fraction

from symx import (sym_num, sym_int, sym_real, choice, check, obs, cover, eq, ge, le, lt, gt, fail, And, Or, Not,
                  Ite, smax, smin, sabs, assume)
from props.netcommon import step_all

PROPERTY = 'C17'
MSS = 512
INF = float('inf')


class Tap:
    """sender output: checks the send guard at the moment of every emission"""

    def __init__(self, env, box):
        self.env, self.box = env, box
        self.log = []          # (id, time, kind)
        self.expect_resend = None

    def put(self, pkt):
        snd = self.box['snd']
        is_new = pkt.packet_id == snd.next_seq and pkt.packet_id not in [i for i, _, _ in self.log]
        if is_new:
            check('c17.segment-size', eq(pkt.size, MSS))
            check('c17.consecutive-ids', eq(pkt.packet_id, snd.next_seq))
            lim = smin(snd.send_buffer, snd.last_ack + snd.congestion_control.cwnd)
            check('c17.send-guard', le(pkt.packet_id + MSS, lim), pkt.packet_id)
            cover('new-segment')
        self.log.append((pkt.packet_id, self.env.now, 'new' if is_new else 're'))


def reno_rules(pre, ev, r=None, ackno=None):
    """post-state of the statement's rule table. pre: dict(cwnd, ssthresh, dupack, srtt, rttvar, rto, last_ack)"""
    post = dict(pre)
    if ev == 'new':
        # deflate first - only a run of duplicates that reached the third one (fast retransmit / recovery) inflated the window;
        # after one or two duplicates the new ACK is counted like any new ACK
        cw = pre['ssthresh'] if pre['dupack'] >= 3 else pre['cwnd']
        post['dupack'] = 0
        post['cwnd'] = Ite(le(cw, pre['ssthresh']), cw + MSS, cw + (MSS * MSS) / cw)   # same term shape as the code: int / cwnd
        err = r - pre['srtt']
        post['srtt'] = pre['srtt'] + err / 8
        post['rttvar'] = pre['rttvar'] + (sabs(err) - pre['rttvar']) / 4
        post['rto'] = post['srtt'] + 4 * post['rttvar']
        post['last_ack'] = ackno
    elif ev == 'dup':
        d = pre['dupack'] + 1
        post['dupack'] = d
        if d == 3:
            post['ssthresh'] = smax(2 * MSS, pre['cwnd'] / 2)
            post['cwnd'] = post['ssthresh'] + 3 * MSS
        elif d > 3:
            post['cwnd'] = pre['cwnd'] + MSS
    elif ev == 'timeout':
        post['cwnd'] = MSS
        post['rto'] = 2 * pre['rto']
    return post


def snapshot(snd):
    cc = snd.congestion_control
    return {'cwnd': cc.cwnd, 'ssthresh': cc.ssthresh, 'dupack': snd.dupack, 'srtt': snd.rtt_estimate,
            'rttvar': snd.est_deviation, 'rto': snd.rto, 'last_ack': snd.last_ack}


def compare(tag, post, now, what):
    for k in ('cwnd', 'ssthresh', 'srtt', 'rttvar', 'rto', 'last_ack'):
        check('c17.%s-%s' % (tag, k), eq(now[k], post[k]), what)
    check('c17.%s-dupack' % tag, now['dupack'] == post['dupack'], what)
    check('c17.cwnd>=mss', ge(now['cwnd'], MSS), what)


def h_reno(cfg):
    from onl.sim import Environment
    from onl.packet import TCPPacketGenerator, TCPReno, Flow, Packet
    env = Environment()
    flow = Flow(flow_id=0, src='s', dst='d', finish_time=INF, size=cfg['flow_mss'] * MSS + cfg.get('extra_bytes', 0))
    if cfg.get('appl'):
        # application-limited flow: data becomes available one MSS at a time at symbolic instants, so the sender
        # sleeps inside its refill loop (and its window may shrink meanwhile)
        from props.netcommon import DrawStub
        flow.arrival_dist = DrawStub('ag', 'real', lo=0, n=cfg['flow_mss'] + 1, after=0)
    cwnd0 = sym_int('w0', 1, cfg['w0max']) * MSS
    cc = TCPReno(mss=MSS, cwnd=cwnd0, ssthresh=65535)
    rtt0 = sym_real('rtt0', 1)
    box = {}
    tap = Tap(env, box)
    snd = TCPPacketGenerator(env, flow, cc, element_id='s', rtt_estimate=rtt0)
    box['snd'] = snd
    snd.out = tap
    events = cfg['events']
    state = {'put': False, 'done': False}
    ntimeouts = 0
    max_to = cfg.get('max_timeouts', 1)

    def driver():
        yield env.timeout(0)
        # arbitrary state (documented invariants only)
        if not cfg.get('appl'):
            cc.cwnd = sym_real('cwnd', MSS)
        cc.ssthresh = sym_real('ssthresh', MSS)
        snd.dupack = cfg.get('dupack0', 0)
        snd.est_deviation = sym_real('rttvar', 0)
        for ei, ev in enumerate(events):
            yield env.timeout(sym_real('dt%d' % ei, 0))
            pre = snapshot(snd)
            nlog = len(tap.log)
            state['put'] = True
            if ev == 'new':
                j = 1 + choice('adv%d' % ei, cfg.get('maxadv', 2))
                ackno = snd.last_ack + j * MSS
                if not ackno <= snd.next_seq:
                    assume(False)      # cannot acknowledge data that was never sent
                    return
                r = sym_real('r%d' % ei, 0)
                ack = Packet(env.now - r, 40, ackno - MSS, flow_id=10000)
                ack.ack = ackno
                snd.put(ack)
                compare('new', reno_rules(pre, 'new', r, ackno), snapshot(snd), (ei, ev))
                cover('new-ack')
                if pre['dupack'] >= 3:
                    cover('deflate')
                elif pre['dupack'] > 0:
                    cover('new-ack-after-one-or-two-duplicates')
            elif ev == 'dup':
                ack = Packet(env.now, 40, snd.last_ack, flow_id=10000)
                ack.ack = snd.last_ack
                snd.put(ack)
                post = reno_rules(pre, 'dup')
                compare('dup', post, snapshot(snd), (ei, ev))
                if not snd.last_ack < snd.next_seq:
                    cover('dup-with-nothing-outstanding')
                if post['dupack'] == 3 and snd.last_ack < snd.next_seq:
                    re = [i for i, _, k in tap.log[nlog:]]
                    check('c17.fast-retransmit', re == [snd.last_ack], re)
                    cover('fast-retransmit')
            obs('ev', ei, ev, snd.congestion_control.cwnd)
        state['done'] = True

    env.process(driver())
    # drive by steps so that timer expiries are observed one by one
    from onl.sim.core import EmptySchedule
    try:
        steps = 0
        while env.peek() != INF:
            if state['done'] and (events or ntimeouts >= max_to):
                break
            pre = snapshot(snd)
            n0 = len(tap.log)
            timers_before = {k: t.expire_time for k, t in snd.timers.items()}
            pre_sent = set(snd.sent_packets.keys())
            state['put'] = False
            env.step()
            steps += 1
            new = tap.log[n0:]
            cur = snapshot(snd)
            if len(new) == 1 and new[0][2] == 're' and not state['put'] and new[0][0] in timers_before:
                # a retransmission that no injected ACK caused: a retransmission timeout
                post = reno_rules(pre, 'timeout')
                check('c17.timeout-cwnd', eq(cur['cwnd'], post['cwnd']))
                check('c17.timeout-rto', eq(cur['rto'], post['rto']))
                check('c17.timeout-at-expiry', eq(env.now, timers_before[new[0][0]]))
                check('c17.timeout-retransmits-an-outstanding-segment', new[0][0] in pre_sent, new[0][0])
                check('c17.timeout-leaves-the-rest', cur['dupack'] == pre['dupack'] and cur['ssthresh'] is pre['ssthresh']
                      and cur['last_ack'] is pre['last_ack'], 'a timeout sets cwnd and doubles the RTO, nothing else')
                check('c17.cwnd>=mss', ge(cur['cwnd'], MSS))
                cover('timeout')
                ntimeouts += 1
                if ntimeouts > max_to:
                    assume(False)      # more expiries than the stated bound: outside the claim
                    break
            if steps > 400:
                break
    except EmptySchedule:
        pass
    except Exception as ex:  # noqa
        fail('no-raise', '%s: %s' % (type(ex).__name__, ex))
        return
    cover('nontrivial')


def h_cubic(cfg):
    """TCPCubic from its defaults: numeric state concrete, event kinds chosen by the solver."""
    from onl.sim import Environment
    from onl.packet import TCPPacketGenerator, TCPCubic, Flow, Packet
    env = Environment()
    flow = Flow(flow_id=0, src='s', dst='d', finish_time=INF, size=cfg['flow_mss'] * MSS)
    cc = TCPCubic()
    box = {}
    tap = Tap(env, box)
    snd = TCPPacketGenerator(env, flow, cc, element_id='s', rtt_estimate=1.0)
    box['snd'] = snd
    snd.out = tap
    if cfg.get('ssthresh') is not None:
        cc.ssthresh = cfg['ssthresh']      # public attribute: start in congestion avoidance

    def driver():
        yield env.timeout(0)
        for ei in range(cfg['nev']):
            yield env.timeout(cfg['dt'])
            ev = ('new', 'dup')[choice('ev%d' % ei, 2)]
            pre = snapshot(snd)
            pre_cnt, pre_cwnd_cnt = cc.cnt, cc.cwnd_cnt
            if ev == 'new':
                ackno = snd.last_ack + MSS
                if ackno > snd.next_seq:
                    assume(False)
                    return
                ack = Packet(env.now - cfg['rtt'], 40, ackno - MSS, flow_id=10000)
                ack.ack = ackno
                snd.put(ack)
                cur = snapshot(snd)
                cw = pre['ssthresh'] if pre['dupack'] >= 3 else pre['cwnd']
                if cw <= pre['ssthresh']:
                    check('c17.cubic-slow-start', eq(cur['cwnd'], cw + MSS), ei)
                    cover('cubic-slow-start')
                else:
                    check('c17.cubic-ca-step', Or(eq(cur['cwnd'], cw), eq(cur['cwnd'], cw + MSS)), ei)
                    cover('cubic-ca')
                post = reno_rules(pre, 'new', cfg['rtt'], ackno)
                for k in ('srtt', 'rttvar', 'rto', 'last_ack'):
                    check('c17.cubic-' + k, eq(cur[k], post[k]), ei)
                check('c17.cubic-dupack', cur['dupack'] == 0)
            else:
                ack = Packet(env.now, 40, snd.last_ack, flow_id=10000)
                ack.ack = snd.last_ack
                snd.put(ack)
                cur = snapshot(snd)
                post = reno_rules(pre, 'dup')
                for k in ('cwnd', 'ssthresh'):
                    check('c17.cubic-dup-' + k, eq(cur[k], post[k]), ei)
                check('c17.cubic-dupack', cur['dupack'] == post['dupack'])
                if post['dupack'] == 3:
                    cover('cubic-fast-retransmit')
            check('c17.cwnd>=mss', ge(cur['cwnd'], MSS), ei)
            obs('ev', ei, ev, cur['cwnd'])

    env.process(driver())
    try:
        env.run(until=cfg['horizon'])
    except Exception as ex:  # noqa
        fail('no-raise', '%s: %s' % (type(ex).__name__, ex))
        return
    cover('nontrivial')


HARNESSES = {'reno': h_reno, 'cubic': h_cubic}


def VIOL_KEY(cfg):
    return ','.join(cfg.get('events', [])) or 'cubic'


def jobs(tier, seed):
    js = []
    hist = [['new'], ['dup'], ['new', 'new'], ['dup', 'dup', 'dup'], ['dup', 'dup', 'dup', 'dup'],
            ['dup', 'dup', 'dup', 'new'], ['dup', 'new'], []]
    if tier != 'quick':
        hist += [['new', 'dup', 'dup', 'dup', 'dup', 'new'], ['dup', 'dup', 'dup', 'dup', 'dup', 'new', 'new'],
                 ['new', 'new', 'new'], ['dup', 'dup', 'new', 'dup', 'dup', 'dup'],
                 ['dup', 'dup', 'dup', 'new', 'dup', 'dup', 'dup'], ['new', 'dup', 'new', 'dup', 'dup', 'dup', 'new'],
                 ['dup', 'dup', 'dup', 'dup', 'new', 'dup', 'dup', 'dup', 'new'], ['new', 'new', 'dup', 'dup', 'dup', 'dup', 'dup', 'new']]
    for h in hist:
        for d0 in (0, 2) if h and h[0] == 'dup' else (0,):
            js.append({'harness': 'reno', 'weight': 3 ** len(h),
                       'cfg': {'events': h, 'flow_mss': 3, 'w0max': 2, 'dupack0': d0, 'max_timeouts': 1 if h else 2,
                               'maxadv': 2}, 'opts': {'max_paths': 4000 if tier == 'quick' else 20000}})
    # a flow whose size is not a whole number of segments: the last half segment is never sent as a full one
    for h in (['new'], ['dup']):
        js.append({'harness': 'reno', 'weight': 3 ** len(h),
                   'cfg': {'events': h, 'flow_mss': 1, 'extra_bytes': 256, 'w0max': 4, 'dupack0': 0, 'max_timeouts': 1, 'maxadv': 2},
                   'opts': {'max_paths': 4000}})
    # duplicates arriving when everything sent has been acknowledged (nothing to retransmit; the window rules still apply)
    for h, fm in ((['new', 'dup', 'dup', 'dup'], 1), (['new', 'dup', 'dup', 'dup', 'dup'], 2), (['new', 'new', 'dup', 'dup', 'dup'], 2)):
        js.append({'harness': 'reno', 'weight': 3 ** len(h),
                   'cfg': {'events': h, 'flow_mss': fm, 'w0max': 2, 'dupack0': 0, 'max_timeouts': 1, 'maxadv': 2},
                   'opts': {'max_paths': 4000 if tier == 'quick' else 20000}})
    js.append({'harness': 'reno', 'weight': 200,
               'cfg': {'events': [], 'flow_mss': 3, 'w0max': 4, 'dupack0': 0, 'max_timeouts': 2, 'maxadv': 2, 'appl': True},
               'opts': {'max_paths': 6000 if tier == 'quick' else 30000}})
    if tier != 'quick':
        # longer flows / larger initial windows (more segments in flight when the events arrive)
        for h in (['new', 'dup', 'dup', 'dup', 'new'], ['dup', 'dup', 'dup', 'new', 'new'], ['new', 'new', 'dup', 'dup', 'dup']):
            js.append({'harness': 'reno', 'weight': 3 ** len(h),
                       'cfg': {'events': h, 'flow_mss': 6, 'w0max': 4, 'dupack0': 0, 'max_timeouts': 1, 'maxadv': 3},
                       'opts': {'max_paths': 30000}})
    for ssth in (None, 600):
        for dt, rtt in ((0.5, 0.25), (2.0, 1.0)):
            js.append({'harness': 'cubic', 'weight': 40,
                       'cfg': {'nev': 6 if tier == 'quick' else 9, 'flow_mss': 12, 'dt': dt, 'rtt': rtt,
                               'ssthresh': ssth, 'horizon': 40}})
    return js


META = {
    'rule': 'one case = one feasible path of (initial window, arbitrary cwnd/ssthresh/rttvar/rtt estimate, event history)',
    'required_labels': ['c17.send-guard', 'c17.new-cwnd', 'c17.new-rto', 'c17.dup-cwnd', 'c17.dup-ssthresh',
                        'c17.timeout-cwnd', 'c17.timeout-rto', 'c17.cubic-slow-start', 'c17.cubic-ca-step'],
    'required_covers': ['nontrivial', 'new-ack', 'deflate', 'fast-retransmit', 'timeout', 'new-segment', 'cubic-ca',
                        'dup-with-nothing-outstanding', 'new-ack-after-one-or-two-duplicates'],
    'bounds': {'quick': 'Reno: flow of 3 MSS, initial window 1-2 MSS, then cwnd, ssthresh >= MSS, rttvar >= 0, rtt estimate > 0 arbitrary reals; '
                        'event histories of length <= 4 (new ACK advancing 1-2 segments with symbolic RTT sample, duplicate ACKs, timer expiries '
                        'at symbolic instants, at most 1 expiry per history (2 for the empty history), initial RTT estimate >= 1; CUBIC: defaults, 6 events new/dup chosen by the solver, concrete dt/RTT; duplicates with nothing outstanding; deflation only after the third duplicate',
               'thorough': 'histories <= 9, flows of 6 MSS with windows <= 4 MSS, CUBIC 9 events'},
    'assumptions': ['ACK numbers never exceed next_seq and never decrease (the statement speaks of new and duplicate ACKs)',
                    'an ACK repeating the last acknowledged byte counts as a duplicate also when nothing is outstanding (the statement makes no exception; only the retransmission is then not demanded)',
                    'MSS*MSS/cwnd is compared as the same rational term (division by the symbolic cwnd, cwnd >= MSS)'],
    'stubs': ['ACKs are injected by calling the sender\'s put() with crafted acknowledgement packets'],
    'outside': ['the numerical CUBIC window curve (cube root / cubic polynomial): only that a CA step is 0 or +MSS',
                'histories longer than the bound'],
}

MANIFEST = {
    'level_text': 'Bounded model checking by symbolic execution of the real sender and congestion-control hooks: one-step rule '
                  'table from an arbitrary (symbolic) state chained over bounded ACK / duplicate-ACK / timeout histories, and the '
                  'send guard checked at every emission.',
    'level_note': 'Trusted: z3 (nonlinear term MSS^2/cwnd handled by congruence), symx proxies (validated by concrete witness replay); '
                  'CUBIC curve values not re-derived (stated not-applicable sub-clause).',
}
