"""C09 -- port: line-rate serialisation, exact tail drop, occupancy, RED."""
from fractions import Fraction

from symx import (sym_num, sym_int, sym_real, check, obs, cover, eq, ge, le, lt, gt, fail, Ite, smax,
                  And, Or, Not, Implies, ssum)
from props.netcommon import Rec, mk_packet, step_all, DrawStub, RandomStub

PROPERTY = 'C09'
RED_ID = 'r1'
INF = float('inf')


def _held_bytes(held):
    return ssum([p.size for p in held])


def h_port(cfg):
    from onl.sim import Environment
    from onl.packet import Packet
    from onl.netdev import Port
    env = Environment()
    rate, mode, n, sort = cfg['rate'], cfg['mode'], cfg['n'], cfg['sorts']
    burst = cfg.get('burst') or [0] * n
    eid = cfg.get('eid', 'p1')
    qlimit = None if mode == 'none' else sym_int('qlimit', 1)
    port = Port(env, rate, qlimit, mode == 'bytes', eid)
    held, accepted, arrivals, dropped = [], [], {}, []
    arr_list = []          # arrival instants of the accepted entries, in order (one object may be accepted twice)

    def on_dep(pkt):
        for i, p in enumerate(held):
            if p is pkt:
                del held[i]
                break
        else:
            fail('c09.departure-of-unknown-packet')
        check('c09.byte-size@dep', eq(port.byte_size, _held_bytes(held)))

    rec = Rec(env, on_put=on_dep)
    port.out = rec
    twin = None
    if cfg.get('twin'):
        # a second Port with the same parameters in the same environment, fed a copy of every packet at the same instant:
        # instances share nothing, so it must behave exactly like the first
        twin = Port(env, rate, qlimit, mode == 'bytes', eid)
        twin_rec = Rec(env)
        twin.out = twin_rec

    def source():
        for k in range(n):
            if not burst[k]:
                yield env.timeout(sym_num('g%d' % k, sort, 0))
            size = sym_int('s%d' % k, 1)
            pkt = mk_packet(Packet, env.now, size, k)
            if cfg.get('reuse') and k == n - 1 and accepted and not any(p is accepted[0] for p in held):
                # the first packet object comes by again (a retransmission of the object its sender keeps)
                pkt = accepted[0]
                size = pkt.size
                cover('same-object-again')
            if twin is not None:
                twin.put(mk_packet(Packet, env.now, size, 1000 + k))
            waiting = len(port.store.items)
            hb = _held_bytes(held)
            d0, r0 = port.packets_dropped, port.packets_received
            port.put(pkt)
            check('c09.received+1', port.packets_received == r0 + 1)
            was_dropped = port.packets_dropped != d0
            if mode == 'bytes':
                exp_drop = gt(hb + size, qlimit)
            elif mode == 'pkts':
                exp_drop = ge(waiting, qlimit - 1)
            else:
                exp_drop = False
            if was_dropped:
                check('c09.drop-rule', exp_drop, 'dropped although the rule accepts')
                check('c09.dropped+1', port.packets_dropped == d0 + 1)
                dropped.append(pkt)
                cover('dropped')
            else:
                check('c09.drop-rule', Not(exp_drop), 'accepted although the rule refuses')
                held.append(pkt)
                accepted.append(pkt)
                arrivals[k] = env.now
                arr_list.append(env.now)
                check('c09.perhop-stamp', eid in pkt.perhop_time and eq(pkt.perhop_time.get(eid, -1), env.now))
                if mode == 'bytes':
                    check('c09.occupancy<=limit', le(_held_bytes(held), qlimit))
                    cover('exactly-full', 0)
                elif mode == 'pkts':
                    check('c09.occupancy<=limit', le(len(held), qlimit))
            check('c09.byte-size@put', eq(port.byte_size, _held_bytes(held)))
            check('c09.received=accepted+dropped',
                  port.packets_received == len(accepted) + port.packets_dropped)
            obs('put', k, env.now, was_dropped)

    env.process(source())
    try:
        env.run()
    except Exception as ex:  # noqa
        fail('no-raise', '%s: %s' % (type(ex).__name__, ex))
        return
    check('c09.all-accepted-depart-once', [p for p, _ in rec.log] == accepted or
          (len(rec.log) == len(accepted) and all(a is b for (a, _), b in zip(rec.log, accepted))),
          'departures %s accepted %s' % ([p.packet_id for p, _ in rec.log], [p.packet_id for p in accepted]))
    if len(rec.log) == len(accepted):
        prev = None
        for (p, t), a, arr in zip(rec.log, accepted, arr_list):
            start = arr if prev is None else smax(arr, prev)
            exp = start + (Fraction(8) * a.size / rate if rate > 0 else 0)
            check('c09.departure-time', eq(t, exp), a.packet_id)
            prev = t
            obs('dep', a.packet_id, t)
    check('c09.nothing-held-at-end', len(held) == 0)
    check('c09.byte-size@end', eq(port.byte_size, 0))
    if twin is not None:
        a = [(p.packet_id, t) for p, t in rec.log]
        b = [(p.packet_id - 1000, t) for p, t in twin_rec.log]
        check('c09.instances-independent', [x[0] for x in a] == [x[0] for x in b] and
              twin.packets_dropped == port.packets_dropped and twin.packets_received == port.packets_received, (a, b))
        if len(a) == len(b):
            for x, y in zip(a, b):
                check('c09.instances-independent', eq(x[1], y[1]), x[0])
        cover('two-instances')
    if dropped or len(accepted) >= 2:
        cover('nontrivial')


def h_portmon(cfg):
    """PortMonitor samples == harness occupancy (with / without the packet in service)."""
    from onl.sim import Environment
    from onl.packet import Packet
    from onl.netdev import Port, PortMonitor
    env = Environment()
    rate, n, sort, incl, nsamp = cfg['rate'], cfg['n'], cfg['sorts'], cfg['incl'], cfg['nsamp']
    port = Port(env, rate, None, False, 'p1')
    held = []

    def on_dep(pkt):
        for i, p in enumerate(held):
            if p is pkt:
                del held[i]
                break

    port.out = Rec(env, on_put=on_dep)
    dist = DrawStub('m', sort, lo=0, n=nsamp, after=INF, lo_strict=True)
    pm = PortMonitor(env, port, dist, pkt_in_service_included=incl)
    env.process(pm.run())

    def source():
        for k in range(n):
            yield env.timeout(sym_num('g%d' % k, sort, 0))
            pkt = mk_packet(Packet, env.now, sym_int('s%d' % k, 1), k)
            port.put(pkt)
            held.append(pkt)

    env.process(source())
    seen = [0]

    def after_step():
        while seen[0] < len(pm.sizes):
            i = seen[0]
            seen[0] += 1
            hb = _held_bytes(held)
            sample = pm.sizes_byte[i]
            if incl or not held:
                check('c09.monitor-bytes', eq(sample, hb), (i, incl))
            else:
                head = held[0]
                in_store = any(p is head for p in port.store.items)
                if in_store:
                    # nothing has started transmission yet
                    check('c09.monitor-bytes', eq(sample, hb), (i, incl, 'head waiting'))
                elif port.busy:
                    check('c09.monitor-bytes', eq(sample, hb - head.size), (i, incl, 'head in service'))
                    cover('monitor-excluded-in-service')
                else:
                    # head taken from the queue in this very instant, transmission not begun:
                    # the statement does not say which side it is on
                    check('c09.monitor-bytes', Or(eq(sample, hb), eq(sample, hb - head.size)),
                          (i, incl, 'head between queue and service'))
            if len(held) > 0:
                cover('nontrivial')
            obs('sample', i, env.now, pm.sizes[i], pm.sizes_byte[i])

    step_all(env, after_step)
    check('c09.monitor-samples-taken', len(pm.sizes) == nsamp)


def h_red(cfg):
    from onl.sim import Environment
    from onl.packet import Packet
    from onl.netdev.red_port import REDPort
    import onl.netdev.red_port as rp
    env = Environment()
    n, sort, w = cfg['n'], cfg['sorts'], cfg['w']
    min_th, max_th, maxp, qlimit = cfg['min_th'], cfg['max_th'], Fraction(cfg['maxp']), cfg['qlimit']
    by = cfg['bytes']
    port = REDPort(env, cfg['rate'], max_th, min_th, float(maxp), 'r1', qlimit, weight_factor=w,
                   limit_bytes=by)
    avg = sym_real('avg0', 0)
    port.average_queue_size = avg
    held, accepted = [], []

    def on_dep(pkt):
        for i, p in enumerate(held):
            if p is pkt:
                del held[i]
                break

    rec = Rec(env, on_put=on_dep)
    port.out = rec
    stub = RandomStub('u')
    alpha = Fraction(1, 2 ** w)
    state = {'avg': avg}

    def source():
        for k in range(n):
            yield env.timeout(sym_num('g%d' % k, sort, 0))
            size = sym_int('s%d' % k, 1)
            pkt = mk_packet(Packet, env.now, size, k)
            q = _held_bytes(held) if by else len(port.store.items)
            a = state['avg'] * (1 - alpha) + q * alpha
            state['avg'] = a
            d0 = port.packets_dropped
            nd = len(stub.draws)
            stub.context = k
            port.put(pkt)
            was_dropped = port.packets_dropped != d0
            check('c09.red-average', eq(port.average_queue_size, a), k)
            drew = len(stub.draws) > nd
            u = stub.draws[nd][0] if drew else None
            # RED curve (with min_threshold == max_threshold the ramp is empty)
            p = (a - min_th) / (max_th - min_th) * maxp if max_th != min_th else maxp
            below = lt(a, min_th)
            hard = ge(a, qlimit)
            mid = And(ge(a, min_th), lt(a, max_th), lt(a, qlimit))
            high = And(ge(a, max_th), lt(a, qlimit))
            if was_dropped:
                check('c09.red-never-below-min', Not(below), k)
                if drew:
                    check('c09.red-curve', And(Implies(mid, le(u, p)), Implies(high, le(u, maxp))), k)
                else:
                    check('c09.red-curve', Or(hard, And(mid, ge(p, 1)), And(high, maxp >= 1)), k)
                cover('red-dropped')
            else:
                check('c09.red-always-at-qlimit', Not(hard), k)
                if drew:
                    check('c09.red-curve', And(Implies(mid, ge(u, p)), Implies(high, ge(u, maxp))), k)
                else:
                    check('c09.red-curve', Or(below, And(mid, le(p, 0))), k)
                held.append(pkt)
                accepted.append(pkt)
                # a REDPort is a Port: an accepted packet carries this hop's arrival stamp under the port's element id
                check('c09.perhop-stamp', RED_ID in pkt.perhop_time and eq(pkt.perhop_time.get(RED_ID, -1), env.now), k)
                cover('red-accepted')
            if drew:
                cover('nontrivial')
            obs('red', k, was_dropped)

    saved = rp.random
    rp.random = stub
    try:
        env.process(source())
        try:
            env.run()
        except Exception as ex:  # noqa
            fail('no-raise', '%s: %s' % (type(ex).__name__, ex))
            return
    finally:
        rp.random = saved
    check('c09.red-accepted-depart', len(rec.log) == len(accepted) and
          all(a is b for (a, _), b in zip(rec.log, accepted)))
    check('c09.red-received', port.packets_received == n)


HARNESSES = {'port': h_port, 'portmon': h_portmon, 'red': h_red}


def jobs(tier, seed):
    js = []
    n = 3 if tier == 'quick' else 5
    for rate in (0, 8, 64):
        for mode in ('none', 'bytes', 'pkts'):
            for sort in ('int', 'real'):
                bursts = [[0] * n, [0] + [1] * (n - 1), [0, 1] + [0] * (n - 2)]
                if tier == 'quick' and sort == 'real':
                    bursts = bursts[:1]
                for b in bursts:
                    js.append({'harness': 'port', 'weight': 10 if mode != 'none' else 1,
                               'cfg': {'rate': rate, 'mode': mode, 'n': n, 'sorts': sort, 'burst': b}})
    # longer workloads, few timing variables: two bursts (queue fills, drains partly, fills again)
    m = 6 if tier == 'quick' else 7
    for mode in ('bytes', 'pkts'):
        js.append({'harness': 'port', 'weight': 40, 'opts': {'max_paths': 20000},
                   'cfg': {'rate': 8, 'mode': mode, 'n': m, 'sorts': 'int', 'burst': [0, 1, 1, 0, 1, 1, 1][:m]}})
    if tier != 'quick':
        for mode in ('bytes', 'pkts'):
            js.append({'harness': 'port', 'weight': 300, 'opts': {'max_paths': 40000},
                       'cfg': {'rate': 8, 'mode': mode, 'n': 6, 'sorts': 'int', 'burst': [0, 0, 1, 0, 0, 1]}})
        for by in (False, True):
            cfg = {'n': 5, 'sorts': 'int', 'w': 2, 'rate': 8, 'bytes': by, 'maxp': '1/2'}
            cfg.update(dict(min_th=100, max_th=300, qlimit=400) if by else dict(min_th=1, max_th=3, qlimit=4))
            js.append({'harness': 'red', 'cfg': cfg, 'weight': 300, 'opts': {'max_paths': 40000}})
    # the same packet object passes the port twice (second pass after it has left): stamped with the arrival time of that pass
    js.append({'harness': 'port', 'weight': 10, 'cfg': {'rate': 8, 'mode': 'none', 'n': 3, 'sorts': 'int', 'burst': [0, 0, 0], 'reuse': True}})
    # two ports in one environment
    for mode in ('bytes', 'pkts'):
        js.append({'harness': 'port', 'weight': 10, 'cfg': {'rate': 8, 'mode': mode, 'n': 3, 'sorts': 'int', 'burst': [0, 1, 0], 'twin': True}})
    # an element id that is falsy but present ('' is a string like any other)
    js.append({'harness': 'port', 'weight': 1, 'cfg': {'rate': 8, 'mode': 'none', 'n': 2, 'sorts': 'int', 'burst': [0, 0], 'eid': ''}})
    for rate in (0, 8):
        for incl in (True, False):
            for sort in (('int',) if tier == 'quick' else ('int', 'real')):
                js.append({'harness': 'portmon', 'weight': 5,
                           'cfg': {'rate': rate, 'n': 2 if tier == 'quick' else 3, 'sorts': sort, 'incl': incl,
                                   'nsamp': 2 if tier == 'quick' else 3}})
    for by in (False, True):
        for w in (1, 2) if tier == 'quick' else (1, 2, 9):
            for rate in (8,) if tier == 'quick' else (0, 8):
                cfg = {'n': 3 if tier == 'quick' else 4, 'sorts': 'int', 'w': w, 'rate': rate, 'bytes': by,
                       'maxp': '1/2'}
                if by:
                    cfg.update(min_th=100, max_th=300, qlimit=400)
                else:
                    cfg.update(min_th=1, max_th=3, qlimit=4)
                js.append({'harness': 'red', 'cfg': cfg, 'weight': 8})
    # legal corner configuration: no ramp at all (min_threshold == max_threshold)
    js.append({'harness': 'red', 'weight': 8,
               'cfg': {'n': 3, 'sorts': 'int', 'w': 1, 'rate': 8, 'bytes': False, 'maxp': '1/2', 'min_th': 2, 'max_th': 2,
                       'qlimit': 4}})
    return js



def extra_checks(tier, seed):
    """second engine (CrossHair) on the function-level harnesses of xh.xh_c09"""
    from symx import xh
    return xh.run('xh.xh_c09', tier)


META = {
    'rule': 'one case = one feasible path of a port workload (sizes, gaps, qlimit symbolic); non-trivial = a packet '
            'was dropped, or >= 2 accepted, or a monitor sample saw a non-empty port, or a RED draw was made',
    'required_labels': ['c09.drop-rule', 'c09.departure-time', 'c09.byte-size@put', 'c09.byte-size@dep',
                        'c09.perhop-stamp', 'c09.monitor-bytes', 'c09.red-curve',
                        'c09.red-average'],
    'required_covers': ['nontrivial', 'dropped', 'red-dropped', 'red-accepted', 'monitor-excluded-in-service', 'two-instances'],
    'bounds': {'quick': 'n=3 packets per workload (monitor: 2 packets, 2 samples); rates {0,8,64}; qlimit symbolic Int>=1 '
                        'or None; sizes Int>=1, gaps >=0 unbounded; RED thresholds (1,3,4)/(100,300,400), maxp 1/2, w in {1,2}, avg0 symbolic; two ports side by side; RED per-hop stamp; two-burst workloads of 6 packets',
               'thorough': 'n=5-6 (monitor 3/3, RED 4-5), w in {1,2,9}, rates {0,8}'},
    'assumptions': ['"waiting to start transmission" is read from the port\'s public store.items immediately before put '
                    '(same-instant arrivals into an idle port count as waiting)',
                    'RED: the averaged quantity is len(store.items) (packet mode) / held bytes (byte mode); u == p left free'],
    'stubs': ['onl.netdev.red_port.random -> symbolic uniform draws in [0,1]',
              'PortMonitor dist -> symbolic positive intervals, then +inf'],
    'outside': ['more packets than the bound', 'float rounding'],
}

MANIFEST = {
    'level_text': 'Bounded model checking by symbolic execution of the real Port/REDPort/PortMonitor: for workloads of '
                  'n packets every size, gap, qlimit (and RED average/draw) value is covered by solver-enumerated paths; '
                  'the drop rule is decided exactly at its threshold because the threshold is a path boundary.',
    'level_note': 'Trusted: z3, symx proxies (validated by concrete witness replay), exact-rational floats; workload '
                  'length bounded; rates and RED parameters on concrete grids.',
}
