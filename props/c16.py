"""C16 -- TCP: cumulative ACKs (TCPSink) and reliability under finite loss (TCPPacketGenerator)."""
from symx import (sym_num, sym_int, sym_bool, check, obs, cover, eq, ge, le, lt, gt, fail, And, Or, Not, Ite)
from props.netcommon import Rec

PROPERTY = 'C16'
MSS = 512
INF = float('inf')


def h_sink(cfg):
    """Part A: arbitrary arrival sequences of n segments (symbolic seq, size): the ACK for every
    arrival equals the contiguous prefix length received so far."""
    from onl.sim import Environment
    from onl.packet import Packet, TCPSink
    env = Environment()
    sink = TCPSink(env)
    rec = Rec(env)
    sink.out = rec
    n = cfg['n']
    segs = []
    prev_ack = 0
    for k in range(n):
        if cfg.get('aligned'):
            seq = sym_int('q%d' % k, 0) * MSS
            size = MSS
        else:
            seq = sym_int('q%d' % k, 0)
            size = sym_int('z%d' % k, 1)
        pkt = Packet(0, size, seq, flow_id=3)
        segs.append((seq, seq + size))
        try:
            sink.put(pkt)
        except Exception as ex:  # noqa
            fail('no-raise', '%s: %s' % (type(ex).__name__, ex))
            return
        check('c16.one-ack-per-segment', len(rec.log) == k + 1)
        if len(rec.log) != k + 1:
            return
        ack = rec.log[-1][0]
        cur = 0
        for _ in range(len(segs)):
            for (s, e) in segs:
                cur = Ite(And(le(s, cur), lt(cur, e)), e, cur)
        check('c16.ack-is-prefix-length', eq(ack.ack, cur), k)
        check('c16.ack-monotone', ge(ack.ack, prev_ack), k)
        check('c16.ack-flow-class', ack.flow_id == 3 + 10000)
        prev_ack = ack.ack
        obs('ack', k, ack.ack)
    cover('nontrivial')


class DropTap:
    def __init__(self, env, name, k, delay, out, budget=None, jitter=0, extra=0.0):
        self.env, self.name, self.k, self.delay, self.out = env, name, k, delay, out
        self.jitter, self.extra = jitter, extra      # the first `jitter` transmissions may be held `extra` seconds longer
        self.budget = budget           # shared cap on the total number of drops
        self.count = 0
        self.sent = []
        self.dropped = 0

    def put(self, pkt):
        i = self.count
        self.count += 1
        self.sent.append((pkt.packet_id, self.env.now, getattr(pkt, 'ack', None)))
        drop = False
        if i < self.k and (self.budget is None or self.budget['left'] > 0):
            drop = bool(sym_bool('%s%d' % (self.name, i)))
        if drop:
            self.dropped += 1
            if self.budget is not None:
                self.budget['left'] -= 1
            return
        # each transmission travels on its own (the sender re-sends the same object)
        snap = (pkt.time, pkt.size, pkt.packet_id, pkt.flow_id, getattr(pkt, 'ack', 0))
        from symx import choice
        late = i < self.jitter and choice('%sj%d' % (self.name, i), 2) == 1
        if late:
            self.delayed = getattr(self, 'delayed', 0) + 1
        self.env.process(self._deliver(pkt, snap, self.delay + (self.extra if late else 0)))

    def _deliver(self, pkt, snap, delay):
        from onl.packet import Packet
        yield self.env.timeout(delay)
        p = Packet(snap[0], snap[1], snap[2], flow_id=snap[3])
        p.ack = snap[4]
        self.out.put(p)


def h_reliable(cfg):
    """Part B: sender -> lossy/delaying path -> sink -> lossy/delaying path -> sender."""
    from onl.sim import Environment
    from onl.packet import TCPPacketGenerator, TCPSink, TCPReno, TCPCubic, Flow
    env = Environment()
    m, kd, ka = cfg['m'], cfg['kd'], cfg['ka']
    flow = Flow(flow_id=0, src='s', dst='d', finish_time=cfg.get('finish', INF), size=m * MSS, start_time=cfg.get('start'))
    cc = TCPReno() if cfg['cc'] == 'reno' else TCPCubic()
    snd = TCPPacketGenerator(env, flow, cc, element_id='s', rtt_estimate=cfg['rtt0'])
    sink = TCPSink(env)
    budget = {'left': cfg['max_drops']} if cfg.get('max_drops') else None
    data = DropTap(env, 'dd', kd, cfg['d1'], sink, budget, cfg.get('jitter_data', 0), cfg.get('extra', 0.0))
    acks = DropTap(env, 'da', ka, cfg['d2'], snd, budget, cfg.get('jitter_ack', 0), cfg.get('extra', 0.0))
    snd.out = data
    sink.out = acks
    try:
        env.run(until=cfg['horizon'])
    except Exception as ex:  # noqa
        fail('no-raise', '%s: %s' % (type(ex).__name__, ex))
        return
    if cfg.get('finish') is not None:
        # a flow with a finish time hands over no new data after it; everything it did send is still delivered reliably
        sent = snd.next_seq
        check('c16.sink-has-all-data', sink.recv_buffer == ([[0, sent]] if sent else []), (str(sink.recv_buffer), sent))
        check('c16.sender-acked-all', snd.last_ack == sent, (snd.last_ack, sent))
        cover('finite-finish-time')
    else:
        check('c16.sink-has-all-data', sink.recv_buffer == [[0, m * MSS]], str(sink.recv_buffer))
        check('c16.sender-acked-all', snd.last_ack == m * MSS, snd.last_ack)
    lossless = data.dropped == 0 and acks.dropped == 0 and not getattr(data, 'delayed', 0) and not getattr(acks, 'delayed', 0)
    if lossless and cfg['d1'] + cfg['d2'] < 2 * cfg['rtt0']:
        ids = [i for i, _, _ in data.sent]
        check('c16.no-spurious-retransmission', len(ids) == len(set(ids)), ids)
        cover('lossless-path')
    if data.dropped or acks.dropped:
        cover('nontrivial')
    if getattr(acks, 'delayed', 0) or getattr(data, 'delayed', 0):
        cover('reordered-by-delay')
    if acks.dropped:
        cover('ack-dropped')
    if data.dropped:
        cover('data-dropped')
    obs('done', snd.last_ack, data.count, acks.count)


HARNESSES = {'sink': h_sink, 'reliable': h_reliable}


def VIOL_KEY(cfg):
    return cfg.get('cc', '')


def jobs(tier, seed):
    js = []
    js.append({'harness': 'sink', 'cfg': {'n': 3}, 'weight': 5})
    js.append({'harness': 'sink', 'cfg': {'n': 4 if tier == 'quick' else 5}, 'weight': 50})
    js.append({'harness': 'sink', 'cfg': {'n': 4 if tier == 'quick' else 5, 'aligned': True}, 'weight': 30})
    for cc in ('reno', 'cubic'):
        for (d1, d2) in ((0.25, 0.25), (1.5, 1.5)):
            for m in (2, 3) if tier == 'quick' else (1, 2, 3, 4):
                for (kd, ka) in ((4, 0), (0, 4), (3, 3)) if tier == 'quick' else ((6, 0), (0, 6), (4, 4), (5, 3)):
                    js.append({'harness': 'reliable', 'weight': 2 ** (kd + ka),
                               'cfg': {'cc': cc, 'm': m, 'kd': kd, 'ka': ka, 'd1': d1, 'd2': d2, 'rtt0': 1.0,
                                       'horizon': 100000}})
    # round-trip time above the initial RTO: spurious retransmissions produce duplicate segments and duplicate ACKs
    for cc in ('reno', 'cubic'):
        for m in (4, 6, 8) if tier == 'quick' else (4, 6, 8, 10, 13):
            js.append({'harness': 'reliable', 'weight': 100,
                       'cfg': {'cc': cc, 'm': m, 'kd': m + 3, 'ka': 2, 'max_drops': 1, 'd1': 1.5, 'd2': 1.5, 'rtt0': 1.0,
                               'horizon': 100000}})
    # a flow with a finish time: retransmissions that fall after it still happen
    for cc in ('reno', 'cubic'):
        js.append({'harness': 'reliable', 'weight': 50,
                   'cfg': {'cc': cc, 'm': 2, 'kd': 4, 'ka': 2, 'max_drops': 2, 'd1': 0.25, 'd2': 0.25, 'rtt0': 1.0, 'finish': 1.5,
                           'horizon': 100000}})
    # a flow that starts later
    for cc in ('reno', 'cubic'):
        js.append({'harness': 'reliable', 'weight': 50,
                   'cfg': {'cc': cc, 'm': 3, 'kd': 3, 'ka': 3, 'max_drops': 2, 'd1': 0.25, 'd2': 0.25, 'rtt0': 1.0, 'start': 2.5,
                           'horizon': 100000}})
    # other initial RTT estimates: far below the path RTT (initial RTO 0.5 < RTT 1) and far above it
    for cc in ('reno', 'cubic'):
        for rtt0 in (0.25, 4.0):
            js.append({'harness': 'reliable', 'weight': 100,
                       'cfg': {'cc': cc, 'm': 4, 'kd': 4, 'ka': 4, 'max_drops': 2, 'd1': 0.5, 'd2': 0.5, 'rtt0': rtt0,
                               'horizon': 100000}})
    # a path that delays individual packets (reordering data segments and ACKs), with and without one drop
    for cc in ('reno', 'cubic'):
        for m in (3, 4) if tier == 'quick' else (3, 4, 6):
            js.append({'harness': 'reliable', 'weight': 200,
                       'cfg': {'cc': cc, 'm': m, 'kd': 3, 'ka': 3, 'max_drops': 1, 'd1': 0.25, 'd2': 0.25, 'rtt0': 1.0,
                               'jitter_data': 4, 'jitter_ack': 4, 'extra': 0.75, 'horizon': 100000}})
    # longer flows, at most two drops anywhere among the first transmissions (all pairs data/data, data/ACK, ACK/ACK)
    for cc in ('reno', 'cubic'):
        for m in (5, 6) if tier == 'quick' else (5, 6, 8):
            for (d1, d2) in ((0.25, 0.25),) if tier == 'quick' else ((0.25, 0.25), (1.5, 1.5)):
                js.append({'harness': 'reliable', 'weight': 400,
                           'cfg': {'cc': cc, 'm': m, 'kd': m + 3, 'ka': m + 3, 'max_drops': 2, 'd1': d1, 'd2': d2, 'rtt0': 1.0,
                                   'horizon': 100000}})
    # three drops anywhere among the first transmissions of an 8-segment flow
    for cc in ('reno', 'cubic'):
        for m in (8,) if tier == 'quick' else (6, 8, 10):
            js.append({'harness': 'reliable', 'weight': 800,
                       'cfg': {'cc': cc, 'm': m, 'kd': m + 4, 'ka': m + 4, 'max_drops': 3, 'd1': 0.25, 'd2': 0.25, 'rtt0': 1.0,
                               'horizon': 100000}})
    return js



def extra_checks(tier, seed):
    """second engine (CrossHair) on the function-level harnesses of xh.xh_c16"""
    from symx import xh
    return xh.run('xh.xh_c16', tier)


META = {
    'rule': 'one case = one feasible path: (Part A) an order/overlap type of n symbolic segments; (Part B) one drop pattern '
            '(symbolic Booleans per transmission index); non-trivial = at least one packet dropped / any segment sequence',
    'required_labels': ['c16.ack-is-prefix-length', 'c16.ack-monotone', 'c16.sink-has-all-data', 'c16.sender-acked-all',
                        'c16.no-spurious-retransmission'],
    'required_covers': ['nontrivial', 'ack-dropped', 'data-dropped', 'lossless-path', 'reordered-by-delay', 'finite-finish-time'],
    'bounds': {'quick': 'Part A: n<=4 segments, seq>=0 and size>=1 symbolic (also MSS-aligned); Part B: flow of 2-3 MSS, drop pattern over the '
                        'first 4 data / 4 ACK transmissions (or 3+3), plus flows of 5-6 MSS with at most 2 drops anywhere among the first m+3 data / ACK transmissions; '
                        'one-way delays {0.25,1.5}, initial RTT estimate 1.0, Reno and CUBIC, horizon 1e5; flows with a finish time (reliability of everything sent)',
               'thorough': 'Part A n<=5; Part B 1-4 MSS, up to 6 data / 6 ACK drops; 5, 6, 8 MSS with <= 2 drops'},
    'assumptions': ['Part B: path delays and the initial RTT estimate are concrete; on the Boolean drop axis the solver enumerates 2^k patterns',
                    'reliability is asserted at a concrete horizon (1e5 s) rather than at agenda exhaustion'],
    'stubs': ['the network path is a harness delay line with scripted drops'],
    'outside': ['longer flows, more drops, other delays', 'CUBIC window curve values'],
}

MANIFEST = {
    'level_text': 'Bounded model checking by symbolic execution of the real TCPSink (all overlap/order types of n symbolic '
                  'segments against the prefix-length oracle) and of the real sender/sink/timer loop under every drop pattern '
                  'within the bound.',
    'level_note': 'Trusted: z3, symx proxies (validated by concrete witness replay); Part B delays concrete and drop patterns '
                  'enumerated by the solver over symbolic Booleans.',
}
