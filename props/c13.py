"""C13 -- static priority is strict and non-preemptive."""
import random
from fractions import Fraction

from symx import (check, obs, cover, eq, ge, le, lt, gt, fail, And, Or, Not)
from props.sched_common import SchedRun, flow_patterns

PROPERTY = 'C13'


def h_sp(cfg):
    r = SchedRun(cfg)
    if not r.run():
        return
    if not r.check_all_depart_once('c13'):
        return
    r.check_work_conserving('c13')      # a transmission in progress is never aborted / stretched
    prio = r.table
    info = {}
    for idx, (p, a, g) in enumerate(r.arrivals):
        info[id(p)] = [a, g, idx, None]
    for (p, D) in r.departs:
        info[id(p)][3] = D - r.tx(p)    # service start
    pk = [p for p, _, _ in r.arrivals]
    strict = 0
    for p in pk:
        a_p, g_p, i_p, S_p = info[id(p)]
        for q in pk:
            if q is p or not prio[r.cls(q)] > prio[r.cls(p)]:
                continue
            a_q, g_q, i_q, S_q = info[id(q)]
            strict += 1
            # q was handed in no later than p (same burst or earlier step): it is waiting whenever p starts
            arrived = True if g_q <= g_p else lt(a_q, S_p)
            check('c13.strict-priority', Not(And(arrived, gt(S_q, S_p))),
                  'packet %d (prio %d) started while packet %d (prio %d) was waiting' % (
                      p.packet_id, prio[r.cls(p)], q.packet_id, prio[r.cls(q)]))
    if strict:
        cover('nontrivial')
    if len({prio[r.cls(p)] for p in pk}) > 1 and any(cfg.get('burst') or []):
        cover('burst-mixed-priorities')


HARNESSES = {'sp': h_sp}


def jobs(tier, seed):
    rng = random.Random(3000 + int(seed))
    js = []
    n = 4 if tier == 'quick' else 5
    tables = [{0: 1, 1: 2}, {0: 2, 1: 1}]
    for t in tables:
        pats = flow_patterns(n, 2, tier, rng)
        if tier == 'quick':
            pats = pats[:4]
        for pi, pat in enumerate(pats):
            for sort in (('int', 'real') if pi == 0 else ('int',)):
                js.append({'harness': 'sp', 'weight': 10,
                           'cfg': {'kind': 'SP', 'rate': 8, 'table': t, 'flows': pat, 'sorts': sort}})
    # bursts: several packets of both priorities handed in at one instant (the D9 shape)
    for t in tables + [{0: 1, 1: 1}]:
        js.append({'harness': 'sp', 'weight': 12,
                   'cfg': {'kind': 'SP', 'rate': 8, 'table': t, 'flows': [1, 1, 0, 0], 'sorts': 'int',
                           'burst': [0, 1, 1, 1]}})
        js.append({'harness': 'sp', 'weight': 12,
                   'cfg': {'kind': 'SP', 'rate': 8, 'table': t, 'flows': [0, 1, 0, 1, 1][:n], 'sorts': 'int',
                           'burst': [0, 1, 0, 1, 0][:n]}})
    # zero-length packets are legal packets: a queue holding only those is still backlogged
    js.append({'harness': 'sp', 'weight': 15,
               'cfg': {'kind': 'SP', 'rate': 8, 'table': {0: 1, 1: 2}, 'flows': [0, 1, 0, 1], 'sorts': 'int', 'smin': 0,
                       'smax': 2, 'burst': [0, 1, 1, 1]}})
    js.append({'harness': 'sp', 'weight': 15,
               'cfg': {'kind': 'SP', 'rate': 8, 'table': {0: 1, 1: 2}, 'flows': [0, 1, 1], 'sorts': 'int', 'smin': 0, 'smax': 2}})
    # longer workloads, few timing variables: two bursts of four packets
    for t in tables:
        js.append({'harness': 'sp', 'weight': 40, 'opts': {'max_paths': 20000},
                   'cfg': {'kind': 'SP', 'rate': 8, 'table': t, 'flows': [0, 1, 0, 1, 1, 0, 0, 1], 'sorts': 'int',
                           'burst': [0, 1, 1, 1, 0, 1, 1, 1], 'smax': 2}})
    if tier != 'quick':
        # six packets, fully symbolic gaps: a sample of flow patterns per seed
        pats6 = flow_patterns(6, 2, tier, rng)
        rng.shuffle(pats6)
        for pat in pats6[:6]:
            js.append({'harness': 'sp', 'weight': 200, 'opts': {'max_paths': 30000},
                       'cfg': {'kind': 'SP', 'rate': 8, 'table': tables[0], 'flows': pat, 'sorts': 'int', 'smax': 3}})
    # very long busy periods: 15 packets handed in at one instant (sizes 1-2), 12 of the higher priority level
    for t in tables:
        hi = max(t, key=lambda k: t[k])
        pat = [hi, 1 - hi, hi, hi, hi, 1 - hi, hi, hi, hi, hi, 1 - hi, hi, hi, hi, hi]
        js.append({'harness': 'sp', 'weight': 60, 'opts': {'max_paths': 4000},
                   'cfg': {'kind': 'SP', 'rate': 8, 'table': t, 'flows': pat, 'sorts': 'int', 'burst': [0] + [1] * 14, 'smax': 2}})
    # arrivals in the very instant a transmission ends, after the delivery (late wake-up)
    for t in tables:
        js.append({'harness': 'sp', 'weight': 40, 'opts': {'max_paths': 8000},
                   'cfg': {'kind': 'SP', 'rate': 8, 'table': t, 'flows': [0, 1, 1, 0], 'sorts': 'int', 'split_gap': [1, 3], 'smax': 3}})
    # priority values need not be integers (2.25 < 2.75: same integer part)
    for t in ({0: 2.25, 1: 2.75}, {0: 2.75, 1: 2.25}, {0: 8, 1: 10}, {0: 1000, 1: 9}):
        js.append({'harness': 'sp', 'weight': 12,
                   'cfg': {'kind': 'SP', 'rate': 8, 'table': t, 'flows': [0, 1, 0, 1], 'sorts': 'int', 'burst': [0, 1, 1, 1]}})
        js.append({'harness': 'sp', 'weight': 12,
                   'cfg': {'kind': 'SP', 'rate': 8, 'table': t, 'flows': [0, 1, 1, 0], 'sorts': 'int'}})
    # three priority levels
    for pat in ([0, 1, 2, 2], [2, 1, 0, 1]) if tier == 'quick' else ([0, 1, 2, 2, 1], [2, 1, 0, 1, 0], [1, 1, 2, 0, 2]):
        js.append({'harness': 'sp', 'weight': 15,
                   'cfg': {'kind': 'SP', 'rate': 8, 'table': {0: 1, 1: 2, 2: 3}, 'flows': pat, 'sorts': 'int'}})
        js.append({'harness': 'sp', 'weight': 15,
                   'cfg': {'kind': 'SP', 'rate': 8, 'table': {0: 1, 1: 2, 2: 3}, 'flows': pat, 'sorts': 'int',
                           'burst': [0, 1, 1, 1, 1][:len(pat)]}})
    return js


META = {
    'rule': 'one case = one feasible path of an SP workload; non-trivial = the workload contains a pair of packets of '
            'different priority (an obligation of the strictness rule was generated)',
    'required_labels': ['c13.strict-priority', 'c13.work-conserving-rate-exact'],
    'required_covers': ['nontrivial', 'burst-mixed-priorities'],
    'bounds': {'quick': 'n=4 packets, 2-3 flows, priority tables {1,2},{2,1},{1,1},{1,2,3},{2.25,2.75}; sizes, gaps unbounded; fractional priorities; a 15-packet burst; late wake-ups; two-burst workloads of 8 packets',
               'thorough': 'n=5, all 2-flow patterns; six seed-chosen patterns of n=6 (sizes <= 3)'},
    'assumptions': ['a packet arriving at exactly the instant of a service start, in a later kernel step than the packet '
                    'being started, is not counted as waiting (the statement does not order them)'],
    'stubs': [],
    'outside': ['more packets than the bound; non-positive priorities (excluded by the statement)'],
}

MANIFEST = {
    'level_text': 'Bounded model checking by symbolic execution of the real SP scheduler: for every pair (started packet, '
                  'higher-priority packet) the solver proves the latter was not waiting at the start instant, for all '
                  'sizes and gaps of each bounded workload.',
    'level_note': 'Trusted: z3, symx proxies (validated by concrete witness replay); workloads <= 6 packets (8 in two bursts); priorities concrete.',
}
