"""C05 -- condition events fire exactly when their predicate first holds, with exact value."""
import random

from symx import (sym_num, sym_int, check, obs, cover, eq, ge, le, lt, gt, fail, And, Or, Not)
from props.kcommon import sort_of

PROPERTY = 'C05'
INF = float('inf')


class Boom(Exception):
    pass


class Node:
    def __init__(self, kind, children=None, spec=None):
        self.kind, self.children, self.spec = kind, children or [], spec
        self.ev = None
        self.proc_step = None
        self.proc_time = None
        self.ok = None
        self.value = None
        self.nfired = 0

    def leaves(self):
        if self.kind == 'leaf':
            return [self]
        out = []
        for c in self.children:
            out += c.leaves()
        return out


def parse(t, uniq=None):
    """['R', k] stands for the very same event as the k-th leaf created so far (one event filling several operand slots)"""
    uniq = [] if uniq is None else uniq
    if t[0] in ('all', 'any', 'and', 'or'):
        return Node(t[0], [parse(c, uniq) for c in t[1:]])
    if t[0] == 'R':
        return uniq[t[1]]
    uniq.append(Node('leaf', spec=t))
    return uniq[-1]


def uleaves(root):
    out = []
    for lf in root.leaves():
        if not any(lf is o for o in out):
            out.append(lf)
    return out


def h_cond(cfg):
    from onl.sim import Environment, AllOf, AnyOf
    from onl.sim.events import ConditionValue
    from onl.sim.core import EmptySchedule
    env = Environment()
    sorts = cfg['sorts']
    root = parse(cfg['tree'])
    nv = [0]

    def num(name):
        i = nv[0]
        nv[0] += 1
        return sym_num(name, sort_of(sorts, i), 0)

    step = [0]
    box = {'cons_step': None, 'cons_time': None, 'waiter': None}
    # 'poll': no probe callbacks at all (the program's own processes stay the only subscribers); processing is observed by
    # polling `processed` after every kernel step
    poll = bool(cfg.get('poll'))
    watched = []

    def probe(node):
        def cb(ev):
            node.nfired += 1
            node.proc_step, node.proc_time, node.ok = step[0], env.now, ev.ok
        return cb

    # leaves exist from t=0
    for li, lf in enumerate(uleaves(root)):
        lf.idx = li
        lf.value = sym_int('v%d' % li)
        k = lf.spec[0]
        if k == 'T':
            lf.ev = env.timeout(num('d%d' % li), value=lf.value)
        elif k == 'E':
            lf.ev = env.event()
            lf.fails = lf.spec[1] == 'fail'
            lf.handled = len(lf.spec) > 2       # somebody else waits for this event and handles its failure
            if lf.handled:
                def catcher(lf=lf):
                    try:
                        yield lf.ev
                    except Boom:
                        pass
                env.process(catcher())

            def helper(lf=lf, li=li):
                yield env.timeout(num('e%d' % li))
                if lf.fails:
                    lf.ev.fail(Boom(lf.value))
                else:
                    lf.ev.succeed(lf.value)
            env.process(helper())
        else:
            def child(lf=lf, li=li):
                yield env.timeout(num('c%d' % li))
                return lf.value
            lf.ev = env.process(child())
        if not poll:
            lf.ev.callbacks.insert(0, probe(lf))
        watched.append(lf)

    def build(node):
        if node.kind == 'leaf':
            return node.ev
        evs = [build(c) for c in node.children]
        if node.kind == 'all':
            node.ev = AllOf(env, evs)
        elif node.kind == 'any':
            node.ev = AnyOf(env, evs)
        elif node.kind == 'and':
            node.ev = evs[0] & evs[1]
        else:
            node.ev = evs[0] | evs[1]
        node.cons_step, node.cons_time = step[0], env.now
        if node.ev.callbacks is not None and not poll:
            node.ev.callbacks.append(probe(node))
        watched.append(node)
        return node.ev

    def builder():
        yield env.timeout(num('tc'))
        box['cons_step'], box['cons_time'] = step[0], env.now
        cond = build(root)
        try:
            v = yield cond
            box['waiter'] = ('ok', v, step[0], env.now)
        except Boom as e:
            box['waiter'] = ('exc', e, step[0], env.now)
        box['resumes'] = box.get('resumes', 0) + 1

    env.process(builder())
    crash = None
    try:
        while env.peek() != INF:
            try:
                env.step()
            finally:
                if poll:
                    for x in watched:
                        if x.proc_step is None and x.ev is not None and x.ev.processed:
                            x.nfired, x.proc_step, x.proc_time, x.ok = 1, step[0], env.now, x.ev.ok
            step[0] += 1
            if step[0] > 400:
                fail('no-hang')
                return
    except EmptySchedule:
        pass
    except Boom as ex:
        crash = (ex, env.now, step[0])
    except Exception as ex:  # noqa
        fail('no-raise', '%s: %s' % (type(ex).__name__, ex))
        return

    cs = box['cons_step']
    parent = {}

    # ---- reference: per node, from the observed processing of its direct operands -----------------
    def decide(node):
        """(decision_step, decision_time, 'ok'|'fail', deciding operand) or None; per the statement"""
        if node.kind == 'leaf':
            return None
        m = len(node.children)
        if m == 0:
            return (node.cons_step, node.cons_time, 'ok', None)
        evs = []
        cut = detach_step(node)
        for oi, c in enumerate(node.children):
            if c.proc_step is None or c.proc_step > cut:
                continue                  # never processed, or processed after an enclosing condition was done
            if c.proc_step < node.cons_step:
                evs.append(((node.cons_step, 0, oi), node.cons_time, c))      # already processed at construction
            else:
                evs.append(((c.proc_step, 1, oi), c.proc_time, c))
        evs.sort(key=lambda x: x[0])
        count = 0
        for key, t, c in evs:
            count += 1
            if not c.ok:
                return (key[0], t, 'fail', c)
            if node.kind in ('any', 'or') or count == m:
                return (key[0], t, 'ok', c)
        return None

    def detach_step(node):
        # once an enclosing condition has been processed, operands completing later change nothing
        best = 10 ** 9
        a = parent.get(id(node))
        while a is not None:
            if a.proc_step is not None:
                best = min(best, a.proc_step)
            a = parent.get(id(a))
        return best

    def inner(node):
        out = []
        if node.kind != 'leaf':
            out.append(node)
            for c in node.children:
                out += inner(c)
        return out

    nodes = inner(root) if cs is not None else []
    # expected crash: a failure that no pending condition (up to the waiting process) absorbs
    for n in nodes:
        for c in n.children:
            parent[id(c)] = n
    failing = []
    for lf in root.leaves():
        if lf.proc_step is not None and lf.ok is False:
            failing.append(lf)
    for n in nodes:
        d = decide(n)
        if d and d[2] == 'fail':
            failing.append(n)

    def absorbed(x):
        p = parent.get(id(x))
        if x.kind == 'leaf' and getattr(x, 'handled', False):
            return True                         # another process waits for this event and catches its failure
        if x is root:
            return True                         # the builder process waits on the root and catches
        if p is None or cs is None:
            return False
        d = decide(p)
        return bool(d and d[2] == 'fail' and d[3] is x)

    exp_crash = None
    cand = []
    for x in failing:
        if not absorbed(x):
            st = x.proc_step if x.proc_step is not None else (decide(x)[0] if x.kind != 'leaf' else None)
            cand.append((st if st is not None else 10 ** 9, x))
    if crash is None:
        check('c05.unhandled-late-failure-raises', not [c for c in cand if c[1].proc_step is not None],
              'a failure nobody handles did not crash the run')
    else:
        lf = [x for x in root.leaves() if x.kind == 'leaf' and x.spec[0] == 'E' and x.spec[1] == 'fail']
        check('c05.crash-only-for-unhandled-failure', bool(lf), 'crash without failing operand')
        # the crash must be explained by an unabsorbed failure observed at this instant
        expl = [x for x in root.leaves() if x.ok is False and x.proc_step is not None and not absorbed(x)] + \
               [n for n in nodes if n.ev is not None and n.ev.triggered and not n.ev.ok and not absorbed(n)]
        check('c05.operand-failure-counts-as-handled', bool(expl), 'crash although a pending condition took the failure')
        cover('late-failure-crash')
        cover('nontrivial')
        return

    if cs is None:
        return
    for n in nodes:
        d = decide(n)
        if n.ev.callbacks is not None and n.nfired == 0 and d is None:
            continue                                             # never met: must not have fired
        check('c05.only-once', n.nfired <= 1, n.kind)
        if d is None:
            check('c05.never-earlier', n.nfired == 0, 'condition %s fired although its predicate never held' % n.kind)
            continue
        if n.cons_step is not None and d[0] == n.cons_step and n.proc_step is None and n.ev.callbacks is None:
            pass
        check('c05.fires-when-predicate-first-holds', n.nfired == 1, (n.kind, d[2]))
        if n.nfired == 1:
            check('c05.trigger-instant', eq(n.proc_time, d[1]), n.kind)
            check('c05.not-before-deciding-operand', n.proc_step >= d[0], n.kind)
            check('c05.outcome', n.ok == (d[2] == 'ok'), (n.kind, d[2]))
            if d[1] is n.cons_time:
                cover('met-at-construction')
    d = decide(root)
    w = box['waiter']
    if d is None:
        check('c05.waiter-not-resumed-early', w is None)
    else:
        check('c05.waiter-resumed-once', w is not None and box.get('resumes') == 1)
        if w is not None:
            check('c05.waiter-instant', eq(w[3], d[1]))
            if d[2] == 'fail':
                src = d[3]
                while src.kind != 'leaf':
                    src = decide(src)[3]
                check('c05.waiter-gets-operand-exception', w[0] == 'exc' and type(w[1]) is Boom and
                      eq(w[1].args[0], src.value))
                cover('failed-before-met')
                if src.proc_step is not None and cs is not None and src.proc_step < cs:
                    cover('failed-operand-processed-at-construction')
            else:
                check('c05.waiter-gets-value', w[0] == 'ok' and isinstance(w[1], ConditionValue))
                if w[0] == 'ok' and isinstance(w[1], ConditionValue):
                    cv = w[1]
                    exp = [lf for lf in uleaves(root) if lf.proc_step is not None and lf.proc_step < root.proc_step]
                    keys = []
                    for k in cv.keys():           # an event filling several slots is one key of the mapping
                        if not any(k is o for o in keys):
                            keys.append(k)
                    check('c05.value-keys-in-operand-order', len(keys) == len(exp) and
                          all(a is b.ev for a, b in zip(keys, exp)), ([lf.idx for lf in exp], len(keys)))
                    if len(keys) == len(exp):
                        for lf in exp:
                            if lf.ok is False:
                                # a (handled) operand that failed after the condition was decided: its value is its exception
                                got = cv[lf.ev]
                                check('c05.value-maps-leaf-to-its-value', type(got) is Boom and eq(got.args[0], lf.value), lf.idx)
                                cover('failed-operand-in-value')
                            else:
                                check('c05.value-maps-leaf-to-its-value', eq(cv[lf.ev], lf.value), lf.idx)
                        td = cv.todict()
                        check('c05.todict', len(td) == len(exp))
                    if len(exp) < len(uleaves(root)):
                        cover('partial-value')
    if len(root.leaves()) >= 2:
        cover('nontrivial')
    if len(uleaves(root)) < len(root.leaves()):
        cover('shared-operand')
    obs('root', root.proc_time, root.ok)


def h_misc(cfg):
    from onl.sim import Environment, AllOf, AnyOf
    env = Environment()
    other = Environment()
    if cfg['what'] == 'mix':
        a = env.timeout(sym_num('d0', 'int', 0))
        b = other.timeout(sym_num('d1', 'int', 0))
        b2 = other.timeout(sym_num('d2', 'int', 0))
        for mk in (lambda: AllOf(env, [a, b]), lambda: AnyOf(env, [a, b]), lambda: a & b, lambda: a | b,
                   # every operand belongs to another environment than the condition itself
                   lambda: AllOf(env, [b]), lambda: AnyOf(env, [b, b2]), lambda: env.all_of([b, b2]),
                   lambda: AllOf(env, [a, AnyOf(other, [b, b2])])):
            try:
                mk()
                fail('c05.mixed-environments-refused', 'no ValueError')
            except ValueError:
                cover('mixed-refused')
    elif cfg['what'] == 'mixfail':
        # a refused mix leaves nothing behind: the own-environment operand fails later, its waiter handles it, the run goes on
        a = env.event()
        b = other.timeout(sym_num('d1', 'int', 0))
        seen = []

        def catcher():
            try:
                yield a
            except Boom:
                seen.append(env.now)

        def failer():
            yield env.timeout(sym_num('d0', 'int', 0))
            for mk in (lambda: a & b, lambda: AllOf(env, [a, b]), lambda: AnyOf(env, [a, b])):
                try:
                    mk()
                    fail('c05.mixed-environments-refused', 'no ValueError')
                except ValueError:
                    cover('mixed-refused')
            yield env.timeout(sym_num('d2', 'int', 0))
            a.fail(Boom(1))

        env.process(catcher())
        env.process(failer())
        try:
            env.run()
        except Exception as ex:  # noqa
            fail('c05.refused-mix-leaves-nothing-behind', '%s: %s' % (type(ex).__name__, ex))
            return
        check('c05.refused-mix-leaves-nothing-behind', len(seen) == 1)
        cover('mix-then-failure')
    else:
        tc = sym_num('tc', 'real', 0)
        res = {}

        def p():
            yield env.timeout(tc)
            for name, cls, empty in (('all', AllOf, []), ('any', AnyOf, []), ('all-iter', AllOf, iter([])),
                                     ('any-gen', AnyOf, (x for x in [])), ('all-tuple', AllOf, ())):
                c = cls(env, empty)
                guard = env.timeout(1)
                got = yield c | guard
                res[name] = (env.now, c.value if c.triggered else None, c.triggered)

        env.process(p())
        env.run()
        done = 0
        for name in ('all', 'any', 'all-iter', 'any-gen', 'all-tuple'):
            ok = name in res and res[name][2] and len(list(res[name][1].keys())) == 0
            check('c05.empty-immediate', ok and eq(res[name][0], tc + done), name)
            if not (name in res and res[name][2]):
                done += 1
        cover('empty')
    cover('nontrivial')


HARNESSES = {'cond': h_cond, 'misc': h_misc}


def VIOL_KEY(cfg):
    return str(cfg.get('tree', cfg.get('what')))[:40]


T, P, EO, EF = ['T'], ['P'], ['E', 'ok'], ['E', 'fail']
EH = ['E', 'fail', 'handled']


def gen_trees(rng, count):
    """random condition trees: depth <= 3, 4-5 leaf slots, all operators, failing / shared operands now and then"""
    out = []
    while len(out) < count:
        nleaf = [0]
        budget = rng.choice([4, 5])

        def mk(depth):
            if depth == 3 or (depth > 0 and rng.random() < 0.45) or nleaf[0] >= budget - 1:
                nleaf[0] += 1
                r = rng.random()
                if r < 0.12 and nleaf[0] > 1 and not fails[0]:
                    return ['R', rng.randrange(nleaf[0] - 1)], True
                if r < 0.24 and not shared[0]:
                    fails[0] = True
                    return list(EF), False
                return list(rng.choice([T, T, T, EO, P])), False
            op = rng.choice(['all', 'any', 'and', 'or'])
            m = 2 if op in ('and', 'or') else rng.choice([2, 2, 3])
            kids = []
            for _ in range(m):
                k, sh = mk(depth + 1)
                if sh:
                    shared[0] = True
                kids.append(k)
            return [op] + kids, False

        fails, shared = [False], [False]
        t, _ = mk(0)
        # references count leaves in creation order: renumber is implicit (['R', k] = k-th non-reference leaf so far)
        nl = str(t).count("'T'") + str(t).count("'E'") + str(t).count("'P'")
        refs_ok = all(k < nl for k in _refs(t))
        if t[0] in ('all', 'any', 'and', 'or') and 3 <= nleaf[0] <= budget and refs_ok and not (fails[0] and shared[0]) and t not in out:
            if _refs_valid(t):
                out.append(t)
    return out


def _refs(t):
    if t[0] == 'R':
        return [t[1]]
    if t[0] in ('all', 'any', 'and', 'or'):
        return [k for c in t[1:] for k in _refs(c)]
    return []


def _refs_valid(t):
    """every ['R', k] must point at a leaf created before it (depth-first order, references do not count)"""
    seen = [0]

    def walk(x):
        if x[0] in ('all', 'any', 'and', 'or'):
            return all(walk(c) for c in x[1:])
        if x[0] == 'R':
            return x[1] < seen[0]
        seen[0] += 1
        return True
    return walk(t)


def jobs(tier, seed):
    rng = random.Random(9000 + int(seed))
    trees = [
        ['all', T, T], ['any', T, T], ['and', T, EO], ['or', T, P], ['all', T, T, T], ['any', T, EO, P],
        ['all', T, EF], ['any', T, EF], ['all', EF, EO], ['any', EF, T], ['and', T, EF], ['or', EF, P],
        ['all', ['any', T, T], T], ['any', ['all', T, T], T], ['or', ['and', T, T], T], ['and', ['or', T, EO], P],
        ['all', ['any', T, EF], T], ['any', ['all', T, EF], T], ['all', T], ['any', EF],
        # depth 3 with partial progress at the deepest level when the root is met
        ['or', ['or', ['and', T, T], T], T], ['any', ['all', ['any', T, T], T], T],
    ]
    # an operand whose failure somebody else handles: it may already be processed (failed) when the condition is built
    trees += [['all', EH, T], ['or', EH, T], ['and', P, EH], ['or', ['and', EO, EH], T]]
    # one event filling several operand slots (directly, and through nested conditions)
    R0 = ['R', 0]
    trees += [['all', T, R0], ['and', EO, R0], ['all', T, EO, R0], ['any', T, R0], ['all', ['any', T, T], R0],
              ['and', ['or', T, P], ['or', R0, T]]]
    if tier != 'quick':
        trees += [['all', P, T, R0, ['R', 1]], ['all', ['all', T, R0], R0], ['or', ['and', T, R0], EO],
                  ['all', ['any', T, T], ['any', R0, ['R', 1]]]]
    if tier != 'quick':
        trees += [['all', ['any', T, T], ['any', T, T]], ['any', ['all', T, T], ['all', T, T]],
                  ['all', ['any', ['all', T, T], T], T], ['any', ['all', ['any', T, EF], T], T],
                  ['all', T, T, T, T], ['any', ['all', T, EO], ['any', P, EF]], ['or', ['and', T, EF], ['and', T, T]],
                  ['any', T, T, T, T], ['all', ['all', T, T], ['all', T, T]], ['and', ['or', T, EF], ['or', EF, T]],
                  ['any', ['any', ['any', T, EF], T], T], ['all', ['all', ['all', T, T], EF], T],
                  ['or', ['and', P, T], ['and', EO, T]], ['all', ['any', T, T, T], T], ['any', ['all', T, T, T], EF]]
    if tier != 'quick':
        trees += gen_trees(rng, 40)
    js = []
    for ti, tr in enumerate(trees):
        js.append({'harness': 'cond', 'cfg': {'tree': tr, 'sorts': ('int', 'real', 'mixed')[ti % 3]},
                   'weight': 5 ** str(tr).count("'T'") * 3})
        if ti % 2 == 0 or tier != 'quick':
            js.append({'harness': 'cond', 'cfg': {'tree': tr, 'sorts': ('real', 'mixed', 'int')[ti % 3], 'poll': True},
                       'weight': 5 ** str(tr).count("'T'") * 3})
    js.append({'harness': 'misc', 'cfg': {'what': 'mix'}})
    js.append({'harness': 'misc', 'cfg': {'what': 'mixfail'}})
    js.append({'harness': 'misc', 'cfg': {'what': 'empty'}})
    return js


META = {
    'rule': 'one case = one feasible path: an order-type of operand completion instants and of the instant at which the '
            'condition tree is constructed (operands pending / triggered / already processed); non-trivial = at least two leaves',
    'required_labels': ['c05.trigger-instant', 'c05.fires-when-predicate-first-holds', 'c05.outcome',
                        'c05.waiter-instant', 'c05.value-keys-in-operand-order', 'c05.value-maps-leaf-to-its-value',
                        'c05.waiter-gets-operand-exception', 'c05.unhandled-late-failure-raises', 'c05.empty-immediate'],
    'required_covers': ['failed-operand-processed-at-construction', 'nontrivial', 'met-at-construction', 'partial-value', 'failed-before-met', 'late-failure-crash',
                        'mixed-refused', 'empty', 'shared-operand', 'mix-then-failure'],
    'bounds': {'quick': '20 condition trees (AllOf, AnyOf, &, |; depth <= 2, <= 3 leaves) over timeouts, shared events succeeded or '
                        'failed by helpers, child processes, one event in several operand slots; construction instant, completion instants and values symbolic; handled failing operands (processed before construction); one event in several slots; probe-free polling mode; refused mix followed by a handled failure',
               'thorough': 'these plus 25 fixed and 40 seed-generated trees, depth <= 3, <= 5 operand slots'},
    'assumptions': ['operands already processed at construction are counted in operand order',
                    'the per-node oracle reads the order in which the kernel processed the node\'s direct operands'],
    'stubs': [],
    'outside': ['deeper / wider trees'],
}

MANIFEST = {
    'level_text': 'Bounded model checking by symbolic execution of the real Condition/AllOf/AnyOf machinery: per tree node the '
                  'trigger instant, outcome, single firing and the exact ConditionValue are proved against the observed processing '
                  'of its operands, for all order-types of completion and construction instants.',
    'level_note': 'Trusted: z3, symx proxies (validated by concrete witness replay); trees of depth <= 3 with <= 4 leaves.',
}
