"""C14 -- WFQ and VirtualClock transmit in virtual-finish-stamp order."""
import random
from fractions import Fraction

from symx import (check, obs, cover, eq, ge, le, lt, gt, fail, And, Or, Not, smax, ssum, sabs, Implies)
from props.sched_common import SchedRun, flow_patterns

PROPERTY = 'C14'


class WFQRef:
    """stamps recomputed from the statement along the observed arrival/departure trace"""

    def __init__(self, r):
        self.r = r
        self.V = 0
        self.last = 0
        self.F = {c: 0 for c in r.table}
        self.count = {c: 0 for c in r.table}
        self.active = []
        self.stamp = {}

    def _advance(self, now):
        if self.active:
            wsum = sum(self.r.table[c] for c in self.active)
            self.V = self.V + (now - self.last) / Fraction(wsum)
        self.last = now

    def on_put(self, pkt):
        r = self.r
        now = r.env.now
        c = r.cls(pkt)
        if not self.active:
            self.V = 0
            self.F = {k: 0 for k in self.F}
            self.last = now
        else:
            self._advance(now)
        self.F[c] = smax(self.F[c], self.V) + Fraction(8) * pkt.size / (r.rate * r.table[c])
        self.stamp[id(pkt)] = self.F[c]
        self.count[c] += 1
        if c not in self.active:
            self.active.append(c)

    def on_dep(self, pkt):
        r = self.r
        c = r.cls(pkt)
        self._advance(r.env.now)
        self.count[c] -= 1
        if self.count[c] == 0:
            self.active.remove(c)
        if not self.active:
            self.V = 0
            self.F = {k: 0 for k in self.F}
            cover('virtual-time-reset')


class VCRef:
    def __init__(self, r):
        self.r = r
        self.aux = {c: 0 for c in r.table}
        self.stamp = {}

    def on_put(self, pkt):
        r = self.r
        c = r.cls(pkt)
        self.aux[c] = smax(r.env.now, self.aux[c]) + r.table[c]
        self.stamp[id(pkt)] = self.aux[c]

    def on_dep(self, pkt):
        pass


def h_stamp(cfg):
    box = {}
    r = SchedRun(cfg, on_put=lambda p: box['ref'].on_put(p), on_dep=lambda p: box['ref'].on_dep(p))
    box['ref'] = ref = WFQRef(r) if cfg['kind'] == 'WFQ' else VCRef(r)
    if not r.run():
        return
    if not r.check_all_depart_once('c14'):
        return
    if cfg['kind'] == 'WFQ':
        # the stamp reference orders arrivals and departures of one instant the way the kernel did;
        # the statement does not: restrict the claim to arrival instants != departure instants
        from symx import assume, ne
        for (p, a, g) in r.arrivals:
            for (_, D) in r.departs:
                if not cfg.get('ties_at_departures'):
                    assume(ne(a, D))
    info = {}
    order = {}
    for idx, (p, a, g) in enumerate(r.arrivals):
        info[id(p)] = [a, g, None]
        order[id(p)] = idx
    for (p, D) in r.departs:
        info[id(p)][2] = D - r.tx(p)
    pk = [p for p, _, _ in r.arrivals]
    nob = 0
    for p in pk:
        a_p, g_p, S_p = info[id(p)]
        F_p = ref.stamp[id(p)]
        for q in pk:
            if q is p:
                continue
            a_q, g_q, S_q = info[id(q)]
            F_q = ref.stamp[id(q)]
            arrived = True if g_q <= g_p else lt(a_q, S_p)
            waiting = And(arrived, gt(S_q, S_p))
            # smallest stamp first; the earlier arrival on equal stamps (same instant and same stamp: free)
            if cfg.get('float_inexact'):
                # stamps that are not dyadic rationals are rounded by the code's float arithmetic: differences below 1e-9 are
                # not resolvable, such near-ties are left free (the dyadic jobs keep the exact rule, ties by arrival included)
                ok = le(F_p, F_q + Fraction(1, 10 ** 9))
            else:
                # equal stamps: the earlier arrival first - packets handed in at one instant arrive in the order of the put() calls
                ok = Or(lt(F_p, F_q), And(eq(F_p, F_q), Or(lt(a_p, a_q), And(eq(a_p, a_q), order[id(p)] < order[id(q)]))))
            check('c14.stamp-order', Implies(waiting, ok),
                  'packet %d started while packet %d with a smaller stamp was waiting' % (p.packet_id, q.packet_id))
            nob += 1
    for (p, D) in r.departs:
        obs('dep', p.packet_id, D)
    if nob:
        cover('nontrivial')
    if cfg.get('static'):
        # static backlog: all packets handed in at one instant (one burst)
        w = r.table
        Lmax = smax([p.size for p in pk])
        served = {c: 0 for c in w}
        remaining = {c: sum(1 for p in pk if r.cls(p) == c) for c in w}
        for (p, D) in r.departs:
            c = r.cls(p)
            served[c] = served[c] + p.size
            remaining[c] -= 1
            bl = [k for k in w if remaining[k] > 0]
            for i in bl:
                for j in bl:
                    if i < j:
                        diff = sabs(served[i] / Fraction(w[i]) - served[j] / Fraction(w[j]))
                        check('c14.static-fairness', le(diff, Lmax / Fraction(w[i]) + Lmax / Fraction(w[j])), (i, j))
                        cover('fairness-evaluated')


HARNESSES = {'stamp': h_stamp}


def VIOL_KEY(cfg):
    return cfg.get('kind')


def jobs(tier, seed):
    rng = random.Random(4000 + int(seed))
    js = []
    n = 4 if tier == 'quick' else 5
    for kind, tables in (('WFQ', [{0: 1, 1: 1}, {0: 1, 1: 2}]), ('VC', [{0: 1, 1: 1}, {0: 1, 1: 2}, {0: 4, 1: 1}])):
        for t in tables:
            inexact = kind == 'WFQ' and sum(t.values()) not in (1, 2, 4, 8)
            pats = flow_patterns(n, 2, tier, rng)
            if tier == 'quick':
                pats = pats[:3]
            else:
                rng.shuffle(pats)
                pats = pats[:9]
            for pi, pat in enumerate(pats):
                for sort in (('int', 'real') if pi == 0 and tier != 'quick' else ('int',)):
                    cfg = {'kind': kind, 'rate': 8, 'table': t, 'flows': pat, 'sorts': sort}
                    if inexact:
                        cfg['float_inexact'] = True
                    js.append({'harness': 'stamp', 'cfg': cfg, 'weight': 10})
            # static backlog: one burst, mixed classes (first packet of the busy period matters here)
            for pat in ([0, 0, 1, 1], [0, 1, 1, 0]) if tier == 'quick' else ([0, 0, 1, 1], [0, 1, 1, 0], [1, 0, 0, 1, 1], [0, 0, 0, 1, 1]):
                cfg = {'kind': kind, 'rate': 8, 'table': t, 'flows': pat, 'sorts': 'int',
                       'burst': [0] + [1] * (len(pat) - 1), 'static': kind == 'WFQ'}
                if inexact:
                    cfg['float_inexact'] = True
                js.append({'harness': 'stamp', 'cfg': cfg, 'weight': 10})
            # staggered: idle gap that resets virtual time, then a burst
            cfg = {'kind': kind, 'rate': 8, 'table': t, 'flows': [0, 1, 0, 1], 'sorts': 'int', 'burst': [0, 0, 1, 1]}
            if inexact:
                cfg['float_inexact'] = True
            js.append({'harness': 'stamp', 'cfg': cfg, 'weight': 10})
    # longer workloads, few timing variables: two bursts (effects that need several packets to show)
    for kind, t in (('WFQ', {0: 1, 1: 1}), ('VC', {0: 1, 1: 2}), ('VC', {0: 4, 1: 1})):
        m = 6 if tier == 'quick' else 7
        js.append({'harness': 'stamp', 'weight': 60, 'opts': {'max_paths': 20000},
                   'cfg': {'kind': kind, 'rate': 8, 'table': t, 'flows': [0, 1, 0, 1, 1, 0, 0, 1][:m], 'sorts': 'int',
                           'burst': [0, 1, 1, 0, 1, 1, 1, 1][:m], 'smax': 2}})
    # very long busy periods: 13 packets handed in at one instant (10 of one class, 3 of the other; sizes 1-2)
    for kind, t in (('WFQ', {0: 1, 1: 1}), ('VC', {0: 1, 1: 2}), ('VC', {0: 4, 1: 1})):
        js.append({'harness': 'stamp', 'weight': 80, 'opts': {'max_paths': 6000},
                   'cfg': {'kind': kind, 'rate': 8, 'table': t, 'flows': [1, 1, 0, 1, 1, 1, 0, 1, 1, 1, 0, 1, 1], 'sorts': 'int',
                           'burst': [0] + [1] * 12, 'smax': 2, 'static': kind == 'WFQ'}})
    # arrivals at the very instant of a transmission end, before and after the delivery (the scheduler may have just emptied)
    for kind, t in (('WFQ', {0: 1, 1: 1}), ('WFQ', {0: 2, 1: 1}), ('VC', {0: 1, 1: 2})):
        js.append({'harness': 'stamp', 'weight': 30,
                   'cfg': {'kind': kind, 'rate': 8, 'table': t, 'flows': [0, 1, 0], 'sorts': 'int', 'ties_at_departures': True}})
        js.append({'harness': 'stamp', 'weight': 60,
                   'cfg': {'kind': kind, 'rate': 8, 'table': t, 'flows': [0, 1, 1, 0], 'sorts': 'int', 'ties_at_departures': True,
                           'split_gap': [1], 'burst': [0, 0, 1, 0], 'smax': 3}})
    # three classes finish a busy period with unequal stamps; a new one starts at the very instant the last packet has left
    js.append({'harness': 'stamp', 'weight': 300, 'opts': {'max_paths': 30000},
               'cfg': {'kind': 'WFQ', 'rate': 8, 'table': {0: 2, 1: 3, 2: 1}, 'flows': [2, 0, 1, 1, 2, 1], 'sorts': 'int',
                       'ties_at_departures': True, 'split_gap': [3], 'burst': [0, 0, 0, 0, 1, 0], 'smax': 2, 'float_inexact': True,
                       'sizes': {'0': 4, '1': 4, '2': 1, '4': 1}}})
    # equal stamps in one instant: four classes with equal vticks / weights, one burst (the heap must not reorder them)
    for kind in ('VC', 'WFQ'):
        js.append({'harness': 'stamp', 'weight': 30,
                   'cfg': {'kind': kind, 'rate': 8, 'table': {0: 1, 1: 1, 2: 1, 3: 1}, 'flows': [0, 1, 2, 3, 0, 1], 'sorts': 'int',
                           'burst': [0, 1, 1, 1, 1, 1], 'sizes': {'0': 1, '1': 1, '2': 1, '3': 1, '4': 1, '5': 1}}})
    # equal stamps, different arrival instants, creation times in the opposite order
    for kind, t in (('VC', {0: 2, 1: 1}), ('VC', {0: 1, 1: 1}), ('WFQ', {0: 1, 1: 1})):
        js.append({'harness': 'stamp', 'weight': 10,
                   'cfg': {'kind': kind, 'rate': 8, 'table': t, 'flows': [0, 1, 1, 0], 'sorts': 'int', 'ctime': 'reversed'}})
    # another line rate
    for kind, t in (('WFQ', {0: 1, 1: 1}), ('VC', {0: 1, 1: 2})):
        js.append({'harness': 'stamp', 'weight': 10,
                   'cfg': {'kind': kind, 'rate': 64, 'table': t, 'flows': [0, 1, 0, 1], 'sorts': 'int', 'burst': [0, 1, 0, 1]}})
    # three classes
    for kind in ('WFQ', 'VC'):
        cfg = {'kind': kind, 'rate': 8, 'table': {0: 1, 1: 1, 2: 2}, 'flows': [0, 1, 2, 2] if tier == 'quick' else [0, 1, 2, 2, 1],
               'sorts': 'int', 'burst': [0, 1, 1, 1, 1][:4 if tier == 'quick' else 5], 'static': kind == 'WFQ',
               'float_inexact': kind == 'WFQ'}
        js.append({'harness': 'stamp', 'cfg': cfg, 'weight': 10})
    return js


META = {
    'rule': 'one case = one feasible path of a WFQ / VirtualClock workload; non-trivial = at least one ordered pair of '
            'packets generated a stamp-order obligation',
    'required_labels': ['c14.stamp-order', 'c14.static-fairness', 'c14.each-once'],
    'required_covers': ['nontrivial', 'virtual-time-reset', 'fairness-evaluated'],
    'bounds': {'quick': 'n=4 packets, 2-3 classes, weights {1,1},{1,2},{1,1,2}, vticks {1,1},{1,2},{4,1}; rate 8; sizes, gaps unbounded; arrivals in the instant the scheduler empties (late wake-up, three classes); 13-packet bursts; two-burst workloads of 6 packets; near-tie tolerance 1e-9 on non-dyadic jobs',
               'thorough': 'n=5'},
    'assumptions': ['WFQ: arrival instants differ from departure instants (the order of an arrival and the departure that '
                    'empties the scheduler at one instant decides whether virtual time is reset first; the statement does not order them)',
                    'a packet arriving at exactly a service-start instant in a later kernel step is not counted as waiting',
                    'same instant and same stamp: order left free'],
    'stubs': [],
    'outside': ['more packets than the bound', 'float rounding of stamps (weight sums of 3: compared with tolerance)'],
}

MANIFEST = {
    'level_text': 'Bounded model checking by symbolic execution of the real WFQ/VC: stamps are recomputed from the statement '
                  'along the observed trace as solver terms and the smallest-stamp-first rule is proved for every pair of '
                  'packets, for all sizes and gaps of each bounded workload; static-backlog fairness bound included.',
    'level_note': 'Trusted: z3, symx proxies (validated by concrete witness replay; non-dyadic weight sums with tolerance); '
                  'workloads <= 5 packets; weights, vticks concrete.',
}
