"""C04 -- interrupts reach a live process once, in issue order, ahead of ordinary events."""
import itertools
import random

from symx import (sym_num, sym_int, check, obs, cover, eq, ge, le, lt, gt, fail, And, Or, Not)
from props.kcommon import sort_of

PROPERTY = 'C04'
INF = float('inf')


class Boom(Exception):
    pass


def h_intr(cfg):
    from onl.sim import Environment, Interrupt
    from onl.sim.core import EmptySchedule
    env = Environment()
    sorts, wait_on, handler = cfg['sorts'], cfg['wait_on'], cfg['handler']
    nv = [0]

    def num(name):
        i = nv[0]
        nv[0] += 1
        return sym_num(name, sort_of(sorts, i), 0)

    step = [0]
    glog = []            # global action log: (kind, step, now, extra)
    issues = []          # accepted interrupts: dict(cause, now, step)
    receipts = []
    box = {'victim': None, 'resumes': 0, 'yields': 0}
    ncause = [0]

    def ordinary(tag):
        glog.append(('ord', step[0], env.now, tag))

    def make_target():
        if wait_on == 'timeout':
            d = num('dv')
            ev = env.timeout(d, value='T')
            box['target_due'] = env.now + d
        elif wait_on == 'event':
            ev = box.get('pre_event') or env.event()
            box['shared'] = ev
            box['target_due'] = None
        elif wait_on in ('cond-any', 'cond-all'):
            # the awaited event is a condition over two timeouts (its outcome must survive the interrupt as well)
            a = env.timeout(num('dv'), value='A')
            b = env.timeout(num('dw'), value='B')
            box['operands'] = (a, b)
            ev = (a | b) if wait_on == 'cond-any' else (a & b)
            box['target_due'] = None
        else:
            def child():
                yield env.timeout(num('dc'))
                ordinary('child')
                return 'T'
            ev = env.process(child())
            box['target_due'] = None
        if not wait_on.startswith('cond'):
            # (no passive probe on condition targets: the victim stays their only subscriber, as in user programs)
            ev.callbacks.append(lambda e: glog.append(('target-processed', step[0], env.now, None)))
        box['target'] = ev
        return ev

    def victim():
        glog.append(('victim-start', step[0], env.now, None))
        if cfg.get('self_interrupt'):
            try:
                env.active_process.interrupt('self')
                fail('c04.self-interrupt-raises', 'no RuntimeError')
            except RuntimeError:
                cover('self-interrupt-refused')
        target = make_target()
        cur, tag = target, 'T'
        while True:
            try:
                box['yields'] += 1
                box['cur'] = cur
                y_step, y_now, y_proc = step[0], env.now, cur.processed
                v = yield cur
                box['resumes'] += 1
                if tag == 'T' and wait_on.startswith('cond'):
                    a, b = box['operands']
                    got = v.todict() if hasattr(v, 'todict') else None
                    want = got is not None and all(k is a or k is b for k in got) and \
                        all(got[k] == ('A' if k is a else 'B') for k in got) and \
                        (len(got) == 2 if wait_on == 'cond-all' else len(got) >= 1)
                    check('c04.resumed-with-the-yielded-events-value', want, str(got))
                else:
                    check('c04.resumed-with-the-yielded-events-value', v == tag, (v, tag))
                if y_proc:
                    check('c04.processed-target-continues-at-once', step[0] == y_step)
                    cover('re-yield-of-processed-target')
                glog.append(('victim-resumed', step[0], env.now, tag))
                if cur is not target:
                    ordinary('other')
                return 'done'
            except Interrupt as it:
                hseq = handler if isinstance(handler, list) else [handler]
                h = hseq[min(len(receipts), len(hseq) - 1)]
                receipts.append({'cause': it.cause, 'now': env.now, 'step': step[0], 'exact_type': type(it) is Interrupt})
                glog.append(('receipt', step[0], env.now, None))
                if h == 'finish' or h == 'return':
                    return 'fin'
                if h == 'raise':
                    raise Boom('handler')
                if h == 'rewait':
                    cur, tag = target, 'T'
                elif h == 'other':
                    cur, tag = env.timeout(num('do'), value='O'), 'O'

    def supervisor():
        try:
            yield box['victim']
        except Boom:
            cover('victim-raised')
        glog.append(('victim-ended', step[0], env.now, None))

    def interrupter(j, cnt):
        if cfg.get('spawn_by_interrupter') and j == 0:
            yield env.timeout(num('ts'))
            box['victim'] = env.process(victim())
            env.process(supervisor())
            if cfg.get('cowaiter'):
                env.process(cowaiter())
        for k in range(cnt):
            if not (cfg.get('spawn_by_interrupter') and j == 0 and k == 0) and not (cfg.get('burst') and k > 0):
                yield env.timeout(num('g%d_%d' % (j, k)))
                ordinary('interrupter%d' % j)
            vic = box['victim']
            if vic is None:
                continue
            if cfg.get('cause_objects'):
                # arbitrary objects as causes: an Interrupt instance (a forwarded interrupt), other exceptions, falsy values
                pool = [Interrupt('inner'), None, '', (), ValueError('x'), 0.0, False, Interrupt(None)]
                cause = pool[(ncause[0] + cfg['cause_objects']) % len(pool)]
            else:
                cause = sym_int('c%d' % ncause[0])
            ncause[0] += 1
            alive = vic.is_alive
            try:
                vic.interrupt(cause)
                check('c04.interrupt-accepted-only-if-alive', alive, 'interrupt() of a finished process did not raise')
                issues.append({'cause': cause, 'now': env.now, 'step': step[0], 'pos': len(glog)})
                glog.append(('issue', step[0], env.now, None))
            except RuntimeError:
                check('c04.runtime-error-only-if-dead', not alive, 'interrupt() of a live process raised')
                cover('dead-victim-refused')

    def cowaiter():
        t = box.get('target')
        if t is None:
            yield env.timeout(0)
            t = box.get('target')
        if t is None:
            return
        v = yield t
        box['cow'] = box.get('cow', 0) + 1
        check('c04.cowaiter-gets-outcome', v == 'T' or (wait_on.startswith('cond') and hasattr(v, 'todict')))
        glog.append(('cowaiter', step[0], env.now, None))

    def releaser():
        yield env.timeout(num('tr'))
        ordinary('releaser')
        if 'shared' in box and not box['shared'].triggered:
            box['shared'].succeed('T')

    if cfg.get('interrupt_from_cowaiter'):
        # a process that waits for the very event the victim waits for, subscribed ahead of the victim, and interrupts the
        # victim the moment it is resumed by that event (the victim's own resumption by the event is still to come in that step)
        box['pre_event'] = env.event()

        def cointerrupter():
            yield box['pre_event']
            ordinary('cointerrupter')
            vic = box['victim']
            if vic is not None and vic.is_alive:
                cause = sym_int('cc')
                vic.interrupt(cause)
                issues.append({'cause': cause, 'now': env.now, 'step': step[0], 'pos': len(glog)})
                glog.append(('issue', step[0], env.now, None))
                cover('interrupt-from-cowaiter')
        env.process(cointerrupter())
    if cfg.get('interrupt_from_callback'):
        # the interrupt is issued by a plain callback of an ordinary timeout (no process is active at that moment)
        def issue(_ev):
            ordinary('callback')
            vic = box['victim']
            if vic is not None and vic.is_alive:
                cause = sym_int('cb')
                vic.interrupt(cause)
                issues.append({'cause': cause, 'now': env.now, 'step': step[0], 'pos': len(glog)})
                glog.append(('issue', step[0], env.now, None))
                cover('interrupt-from-callback')
        tcb = env.timeout(num('tcb'))
        tcb.callbacks.append(issue)
    if not cfg.get('spawn_by_interrupter'):
        box['victim'] = env.process(victim())
        env.process(supervisor())
        if cfg.get('cowaiter'):
            env.process(cowaiter())
    for j, cnt in enumerate(cfg['interrupters']):
        env.process(interrupter(j, cnt))
    if wait_on == 'event':
        env.process(releaser())

    try:
        while env.peek() != INF:
            env.step()
            step[0] += 1
            if step[0] > 400:
                fail('no-hang')
                return
    except EmptySchedule:
        pass
    except Exception as ex:  # noqa
        fail('no-raise', '%s: %s' % (type(ex).__name__, ex))
        return

    # receipts are the first accepted issues, in issue order, at the issue instant, with the issue's cause
    check('c04.no-more-receipts-than-issues', len(receipts) <= len(issues))
    for i, rc in enumerate(receipts[:len(issues)]):
        iss = issues[i]
        if cfg.get('cause_objects'):
            check('c04.cause', rc['cause'] is iss['cause'] and rc['exact_type'], (i, type(iss['cause']).__name__))
            cover('object-causes')
        else:
            check('c04.cause', eq(rc['cause'], iss['cause']) and rc['exact_type'], i)
        check('c04.delivered-at-issue-instant', eq(rc['now'], iss['now']), i)
        between = [g for g in glog if g[0] == 'ord' and iss['step'] < g[1] < rc['step']]
        check('c04.ahead-of-ordinary-events', not between, (i, between[:2]))
        cover('received')
    # an accepted interrupt reaches the victim at the yield it was at: the victim is not resumed by anything else in between
    rpos = [i for i, g in enumerate(glog) if g[0] == 'receipt']
    for i, iss in enumerate(issues):
        end = rpos[i] if i < len(rpos) else len(glog)
        between = [g for g in glog[iss['pos']:end] if g[0] == 'victim-resumed']
        check('c04.interrupt-before-any-further-resume', not between,
              'the victim was resumed by %s after interrupt %d had been issued and before it was delivered' % (between[:1], i))
    if len(receipts) < len(issues):
        # undelivered interrupts: only because the victim had ended
        check('c04.pending-discarded-only-after-end', box['victim'] is not None and not box['victim'].is_alive)
        cover('pending-discarded')
    starts = [g for g in glog if g[0] == 'victim-start']
    if receipts and starts:
        check('c04.started-before-first-interrupt', starts[0][1] <= receipts[0]['step'] and
              glog.index(starts[0]) < [i for i, g in enumerate(glog) if g[0] == 'receipt'][0])
    # the victim is resumed by an event only as often as it yielded and was not interrupted
    check('c04.no-spurious-resume', box['resumes'] + len(receipts) <= box['yields'])
    # the awaited event keeps its outcome for a later re-yield: at the end the victim is not left waiting for a processed event
    vic = box['victim']
    if vic is not None:
        stranded = vic.is_alive and box.get('cur') is not None and box['cur'].processed
        check('c04.re-yield-gets-the-outcome', not stranded, 'victim still waits for an event that has been processed')
        if wait_on.startswith('cond') and 'target' in box:
            # every timeout has fired by now: the awaited condition has its outcome, interrupted waiter or not
            check('c04.event-keeps-its-outcome', box['target'].processed, 'the awaited condition never got its outcome')
    if cfg.get('cowaiter') and 'target' in box and box['target'].processed:
        check('c04.cowaiter-exactly-once', box.get('cow', 0) == 1, box.get('cow', 0))
    if len(receipts) >= 1:
        cover('nontrivial')
    if len(receipts) >= 2:
        cover('several-received')
    obs('n', len(issues), len(receipts))


HARNESSES = {'intr': h_intr}


def VIOL_KEY(cfg):
    return '%s/%s' % (cfg['wait_on'], cfg['handler'])


def jobs(tier, seed):
    js = []
    for wait_on in ('timeout', 'event', 'child'):
        for handler in ('finish', 'rewait', 'other', 'raise'):
            for intr in ([1], [2], [1, 1]) if tier == 'quick' else ([1], [2], [3], [1, 1], [2, 1], [1, 1, 1], [2, 2]):
                for cow in (False, True):
                    if tier == 'quick' and cow and handler in ('raise',):
                        continue
                    cfg = {'wait_on': wait_on, 'handler': handler, 'interrupters': intr, 'cowaiter': cow,
                           'sorts': ('int', 'real', 'mixed')[(len(intr) + len(handler)) % 3]}
                    js.append({'harness': 'intr', 'cfg': cfg, 'weight': 6 ** sum(intr)})
    js.append({'harness': 'intr', 'cfg': {'wait_on': 'timeout', 'handler': 'rewait', 'interrupters': [2], 'cowaiter': False,
                                          'sorts': 'int', 'spawn_by_interrupter': True}, 'weight': 30})
    # interrupts issued by a plain event callback (no active process)
    for wait_on in ('timeout', 'event'):
        for handler in ('finish', 'rewait'):
            js.append({'harness': 'intr', 'weight': 20,
                       'cfg': {'wait_on': wait_on, 'handler': handler, 'interrupters': [1], 'cowaiter': False, 'sorts': 'int',
                               'interrupt_from_callback': True}})
    # the interrupter is itself a waiter of the victim's event, subscribed ahead of the victim
    for handler in ('finish', 'other'):
        js.append({'harness': 'intr', 'weight': 20,
                   'cfg': {'wait_on': 'event', 'handler': handler, 'interrupters': [], 'cowaiter': False, 'sorts': 'int',
                           'interrupt_from_cowaiter': True}})
    # causes that are arbitrary objects
    for off in (1, 4, 8):
        js.append({'harness': 'intr', 'weight': 20,
                   'cfg': {'wait_on': 'timeout', 'handler': 'rewait', 'interrupters': [3], 'cowaiter': False, 'sorts': 'int',
                           'cause_objects': off}})
    # the awaited event is a condition (any_of / all_of over two timeouts)
    for wait_on in ('cond-any', 'cond-all'):
        for handler in ('rewait', 'other', ['other', 'rewait'], 'finish'):
            for intr in ([1], [2]) if tier == 'quick' else ([1], [2], [1, 1], [3]):
                for cow in (False, True) if handler in ('rewait', ['other', 'rewait']) else (False,):
                    js.append({'harness': 'intr', 'weight': 6 ** sum(intr) * 3,
                               'cfg': {'wait_on': wait_on, 'handler': handler, 'interrupters': intr, 'cowaiter': cow, 'sorts': 'int'}})
    for wait_on in ('timeout', 'event', 'child'):
        # several interrupts issued in one step; the victim ends on the first: the rest is discarded
        js.append({'harness': 'intr', 'cfg': {'wait_on': wait_on, 'handler': 'finish', 'interrupters': [3], 'burst': True,
                                              'cowaiter': True, 'sorts': 'int'}, 'weight': 10})
        js.append({'harness': 'intr', 'cfg': {'wait_on': wait_on, 'handler': 'rewait', 'interrupters': [2, 1], 'burst': True,
                                              'cowaiter': False, 'sorts': 'real'}, 'weight': 30})
        # first interrupt: wait for something else; second: go back to the old target (possibly processed meanwhile)
        js.append({'harness': 'intr', 'cfg': {'wait_on': wait_on, 'handler': ['other', 'rewait'], 'interrupters': [2],
                                              'cowaiter': True, 'sorts': 'int'}, 'weight': 40})
    if tier != 'quick':
        for wait_on in ('timeout', 'event', 'child'):
            for hs in (['other', 'rewait', 'other'], ['rewait', 'other', 'finish'], ['other', 'other', 'rewait']):
                js.append({'harness': 'intr', 'cfg': {'wait_on': wait_on, 'handler': hs, 'interrupters': [2, 1],
                                                      'cowaiter': True, 'sorts': 'mixed'}, 'weight': 300})
    js.append({'harness': 'intr', 'cfg': {'wait_on': 'timeout', 'handler': 'other', 'interrupters': [1], 'cowaiter': True,
                                          'sorts': 'real', 'spawn_by_interrupter': True, 'self_interrupt': True}, 'weight': 30})
    js.append({'harness': 'intr', 'cfg': {'wait_on': 'event', 'handler': 'finish', 'interrupters': [1, 1], 'cowaiter': True,
                                          'sorts': 'int', 'self_interrupt': True}, 'weight': 30})
    return js


META = {
    'rule': 'one case = one feasible path: an order-type of issue instants, the victim\'s awaited event and the handler\'s '
            'follow-up waits; non-trivial = at least one interrupt received',
    'required_labels': ['c04.re-yield-gets-the-outcome', 'c04.event-keeps-its-outcome', 'c04.cause', 'c04.delivered-at-issue-instant', 'c04.ahead-of-ordinary-events',
                        'c04.resumed-with-the-yielded-events-value', 'c04.no-spurious-resume', 'c04.runtime-error-only-if-dead',
                        'c04.cowaiter-exactly-once', 'c04.started-before-first-interrupt'],
    'required_covers': ['nontrivial', 'several-received', 'pending-discarded', 'dead-victim-refused', 'self-interrupt-refused',
                        're-yield-of-processed-target', 'victim-raised', 'object-causes', 'interrupt-from-callback'],
    'bounds': {'quick': 'one victim waiting on a timeout / shared event / child / any_of or all_of condition over two timeouts; handlers finish, re-wait, wait for another timeout, raise; '
                        '1-2 interrupters issuing <= 2 interrupts at symbolic instants with symbolic causes; optional co-waiter; victim '
                        'spawned and interrupted in one instant; self-interrupt attempt; condition targets (any_of / all_of); arbitrary objects as causes; interrupts issued from a plain callback and from a co-waiter of the victim\'s event (open finding)',
               'thorough': '<= 4 interrupts from <= 3 interrupters (1, 2, 3, 1+1, 2+1, 1+1+1, 2+2); handler sequences of three steps'},
    'assumptions': ['"ordinary events" observed are the timeouts that resume harness processes'],
    'stubs': [],
    'outside': ['several victims; more interrupts'],
}

MANIFEST = {
    'level_text': 'Bounded model checking by symbolic execution of the real interrupt machinery: delivery exactly once, at the '
                  'issue instant, in issue order, ahead of ordinary events, no resumption by the abandoned target, RuntimeError for '
                  'dead/self targets - proved for every order-type of the symbolic instants of each bounded scenario.',
    'level_note': 'Trusted: z3, symx proxies (validated by concrete witness replay); one victim, <= 4 interrupts.',
}
