"""C08 -- packets are never lost, duplicated or invented between source and sink."""
from fractions import Fraction

from symx import (sym_num, sym_int, sym_real, choice, check, obs, cover, eq, ge, le, lt, gt, fail, And, Or, Not, ssum)
from props.netcommon import snapshot, check_unchanged, FIELDS, mk_packet

PROPERTY = 'C08'
INF = float('inf')


class Link:
    """probe on one link: logs every packet object passing and forwards it"""

    def __init__(self, env, name, out=None):
        self.env, self.name, self.out = env, name, out
        self.log = []
        self.element_id = name

    def put(self, pkt):
        self.log.append((pkt, self.env.now, snapshot(pkt)))
        if self.out is not None:
            self.out.put(pkt)


class Draws:
    def __init__(self, name, sort, n, lo=0, after=INF, lo_strict=False):
        self.name, self.sort, self.n, self.lo, self.after, self.lo_strict = name, sort, n, lo, after, lo_strict
        self.vals = []

    def __call__(self):
        i = len(self.vals)
        if i >= self.n:
            return self.after
        v = sym_num('%s%d' % (self.name, i), self.sort, self.lo, None, self.lo_strict)
        self.vals.append(v)
        return v


def mk_gen(env, name, n, sort, flow_id, out, delay0=None, smax=None):
    from onl.packet import DistPacketGenerator
    gaps = Draws(name + 'g', sort, n)
    sizes = Draws(name + 's', 'int', n + 1, lo=1, after=1)
    if smax:
        sizes = DrawsBounded(name + 's', n + 1, smax)
    d0 = delay0 if delay0 is not None else sym_num(name + 'd0', sort, 0)
    g = DistPacketGenerator(env, name, gaps, sizes, initial_delay=d0, flow_id=flow_id)
    g.out = out
    return g, gaps, sizes, d0


class DrawsBounded(Draws):
    def __init__(self, name, n, hi):
        Draws.__init__(self, name, 'int', n, lo=1, after=1)
        self.hi = hi

    def __call__(self):
        i = len(self.vals)
        if i >= self.n:
            return self.after
        v = sym_int('%s%d' % (self.name, i), 1, self.hi)
        self.vals.append(v)
        return v


def drive(env):
    from onl.sim.core import EmptySchedule
    n = 0
    try:
        while env.peek() != INF:
            env.step()
            n += 1
            if n > 3000:
                fail('no-hang')
                return False
    except EmptySchedule:
        pass
    except Exception as ex:  # noqa
        fail('no-raise', '%s: %s' % (type(ex).__name__, ex))
        return False
    return True


def conserve(tag, ins, outs, dropped_allowed=0, loss_ok=False, fifo=True, counted=None):
    """element-level accounting between its in-links and out-links"""
    in_pk = [p for l in ins for (p, _, _) in l.log]
    out_pk = [p for l in outs for (p, _, _) in l.log]
    in_ids = [id(p) for p in in_pk]
    out_ids = [id(p) for p in out_pk]
    check(tag + '.nothing-invented', all(i in in_ids for i in out_ids), tag)
    check(tag + '.nothing-duplicated', len(set(out_ids)) == len(out_ids), tag)
    missing = [p for p in in_pk if id(p) not in out_ids]
    if counted is not None:
        check(tag + '.discards-are-counted', eq(counted, len(missing)), (len(missing)))
    elif not loss_ok:
        check(tag + '.nothing-lost', len(missing) == 0, [getattr(p, 'packet_id', None) for p in missing])
    if missing:
        cover('discarded')
    if fifo:
        flows = sorted({p.flow_id for p in in_pk})
        for f in flows:
            a = [id(p) for p in in_pk if p.flow_id == f and id(p) in out_ids]
            b = [id(p) for p in out_pk if p.flow_id == f]
            check(tag + '.per-flow-order', a == b, (tag, f))
    return missing


def check_gen(tag, link, gaps, sizes, d0, name, flow_id, n):
    check(tag + '.gen-count', len(link.log) == n, (len(link.log), n))
    t = d0
    for k, (p, now, snap) in enumerate(link.log[:n]):
        t = t + gaps.vals[k]
        check(tag + '.gen-id', p.packet_id == k + 1, k)
        check(tag + '.gen-instant', eq(now, t), k)
        check(tag + '.gen-time-field', eq(p.time, t), k)
        check(tag + '.gen-size', eq(p.size, sizes.vals[k]), k)
        check(tag + '.gen-flow-src', p.flow_id == flow_id and p.src == name, k)


def check_sink(tag, sink, link, mode):
    rec_arr, absolute, rec_waits, by_flow = mode
    groups = {}
    for (p, now, snap) in link.log:
        groups.setdefault(p.flow_id if by_flow else p.src, []).append((p, now))
    for idx, lst in groups.items():
        check(tag + '.sink-count', eq(sink.packets_received[idx], len(lst)), idx)
        check(tag + '.sink-bytes', eq(sink.bytes_received[idx], ssum([p.size for p, _ in lst])), idx)
        if rec_arr:
            arr = sink.arrivals[idx]
            check(tag + '.sink-arrivals-len', len(arr) == len(lst), idx)
            prev = 0
            for (p, now), a in zip(lst, arr):
                check(tag + '.sink-arrival', eq(a, now if absolute else now - prev), idx)
                prev = now
        else:
            check(tag + '.sink-arrivals-off', len(sink.arrivals[idx]) == 0)
        if rec_waits:
            w = sink.waits[idx]
            check(tag + '.sink-waits-len', len(w) == len(lst), idx)
            for (p, now), x in zip(lst, w):
                check(tag + '.sink-wait', eq(x, now - p.time), idx)
        else:
            check(tag + '.sink-waits-off', len(sink.waits[idx]) == 0)
    check(tag + '.sink-no-foreign-index', set(sink.packets_received.keys()) <= set(groups.keys()) or not groups)


def h_pipe(cfg):
    from onl.sim import Environment
    from onl.packet import PacketSink
    from onl.netdev import Port, Wire, TokenBucket, TwoRateTokenBucket, SimplePacketSwitch, FairPacketSwitch
    from onl.netdev.demux import FlowDemux
    import onl.netdev.wire as wm
    from props.sched_common import make_sched
    env = Environment()
    pipe, n, sort = cfg['pipe'], cfg['n'], cfg['sorts']
    mode = tuple(cfg.get('sink_mode', [True, True, True, True]))
    sink = PacketSink(env, rec_arrivals=mode[0], absolute_arrivals=mode[1], rec_waits=mode[2], rec_flow_ids=mode[3])
    L_sink = Link(env, 'to-sink', sink)
    gens = []
    loss_draws = []

    class Rnd:
        def uniform(self, a, b):
            v = sym_real('u%d' % len(loss_draws), a, b)
            loss_draws.append(v)
            return v

    saved = wm.random
    wm.random = Rnd()
    elements = []          # (tag, ins, outs, kwargs)
    try:
        if pipe == 'port-wire':
            qlim = sym_int('qlimit', 1) if cfg.get('qlimit') == 'sym' else None
            port = Port(env, 8, qlim, False, 'p')
            wire = Wire(env, Draws('wd', sort, 99), loss_rate=cfg.get('loss'))
            L0 = Link(env, 'gen->port', port)
            L1 = Link(env, 'port->wire', wire)
            port.out = L1
            wire.out = L_sink
            gens.append(mk_gen(env, 'G0', n, sort, 0, L0) + (L0,))
            elements = [('c08.port', [L0], [L1], {'port': port}), ('c08.wire', [L1], [L_sink], {'loss_ok': bool(cfg.get('loss'))})]
        elif pipe == 'fanin-sched':
            if cfg.get('classmap'):
                # several flows share one class (flow ids differ from the class id)
                cm = {0: 7, 1: 7}
                sched = make_sched(env, cfg['kind'], 8, {7: 1}, flow2class=lambda f: cm[f])
            else:
                sched = make_sched(env, cfg['kind'], 8, {0: 1, 1: 2} if cfg['kind'] != 'RR' else {0: 1, 1: 1})
            port = Port(env, 64, None, False, 'p')
            L0 = Link(env, 'g0->sched', sched)
            L1 = Link(env, 'g1->sched', sched)
            L2 = Link(env, 'sched->port', port)
            sched.out = L2
            port.out = L_sink
            smax = cfg.get('smax', 3200) if cfg['kind'] == 'DRR' else None
            gens.append(mk_gen(env, 'G0', n, sort, 0, L0, smax=smax, delay0=0) + (L0,))
            gens.append(mk_gen(env, 'G1', cfg.get('n1', 1), sort, 1, L1, smax=smax, delay0=0) + (L1,))
            elements = [('c08.sched', [L0, L1], [L2], {}), ('c08.port', [L2], [L_sink], {'port': port})]
        elif pipe == 'fanout-demux':
            p0 = Port(env, 8, None, False, 'p0')
            p1 = Port(env, 16, None, False, 'p1')
            La, Lb = Link(env, 'dm->p0', p0), Link(env, 'dm->p1', p1)
            dm = FlowDemux([La, Lb], None)
            L0 = Link(env, 'g0->dm', dm)
            L1 = Link(env, 'g1->dm', dm)
            L2 = Link(env, 'g2->dm', dm)
            Lo0, Lo1 = Link(env, 'p0->sink', L_sink), Link(env, 'p1->sink', L_sink)
            p0.out, p1.out = Lo0, Lo1
            gens.append(mk_gen(env, 'G0', n, sort, 0, L0) + (L0,))
            gens.append(mk_gen(env, 'G1', 1, sort, 1, L1, delay0=0) + (L1,))
            gens.append(mk_gen(env, 'G2', 1, sort, 2, L2, delay0=0) + (L2,))     # no route for flow 2: discarded by rule
            elements = [('c08.demux', [L0, L1, L2], [La, Lb], {'noroute': 2}), ('c08.port', [La], [Lo0], {'port': p0}),
                        ('c08.port', [Lb], [Lo1], {'port': p1})]
        elif pipe == 'switch':
            if cfg['server'] == 'simple':
                sw = SimplePacketSwitch(env, 2, 8, 10, element_id='sw')
            else:
                sw = FairPacketSwitch(env, 2, 8, 10, {0: 1, 1: 2}, cfg['server'], element_id='sw')
                sw.demux.fib = {0: 0, 1: 1}
            L0 = Link(env, 'g0->sw', sw)
            L1 = Link(env, 'g1->sw', sw)
            Lo0, Lo1 = Link(env, 'sw0->sink', L_sink), Link(env, 'sw1->sink', L_sink)
            sw.ports[0].out, sw.ports[1].out = Lo0, Lo1
            smax = cfg.get('smax', 3200) if cfg['server'] == 'DRR' else None
            gens.append(mk_gen(env, 'G0', n, sort, 0, L0, smax=smax, delay0=0) + (L0,))
            gens.append(mk_gen(env, 'G1', 1, sort, 1, L1, smax=smax, delay0=0) + (L1,))
            elements = [('c08.switch', [L0, L1], [Lo0, Lo1], {})]
        elif pipe == 'tb-sp':
            tb = TokenBucket(env, 8, 4, peak=cfg.get('peak'))
            sp = make_sched(env, 'SP', 8, {0: 1, 1: 2})
            L0 = Link(env, 'g0->tb', tb)
            L1 = Link(env, 'tb->sp', sp)
            L2 = Link(env, 'g1->sp', sp)
            tb.out = L1
            sp.out = L_sink
            gens.append(mk_gen(env, 'G0', n, sort, 0, L0) + (L0,))
            gens.append(mk_gen(env, 'G1', 1, sort, 1, L2, delay0=0) + (L2,))
            elements = [('c08.tb', [L0], [L1], {}), ('c08.sched', [L1, L2], [L_sink], {})]
        elif pipe == 'trtb-wire':
            tb = TwoRateTokenBucket(env, 8, 4, 16, 6)
            wire = Wire(env, Draws('wd', sort, 99), loss_rate=cfg.get('loss'))
            L0 = Link(env, 'g0->trtb', tb)
            L1 = Link(env, 'trtb->wire', wire)
            tb.out = L1
            wire.out = L_sink
            gens.append(mk_gen(env, 'G0', n, sort, 0, L0) + (L0,))
            elements = [('c08.trtb', [L0], [L1], {}), ('c08.wire', [L1], [L_sink], {'loss_ok': bool(cfg.get('loss'))})]
        ok = drive(env)
    except Exception as ex:  # noqa
        fail('no-raise', 'setup: %s: %s' % (type(ex).__name__, ex))
        return
    finally:
        wm.random = saved
    if not ok:
        return
    for tag, ins, outs, kw in elements:
        if 'port' in kw:
            missing = conserve(tag, ins, outs, counted=kw['port'].packets_dropped)
            check(tag + '.received-counter', eq(kw['port'].packets_received, sum(len(l.log) for l in ins)))
        elif 'noroute' in kw:
            missing = conserve(tag, ins, outs, loss_ok=True)
            check(tag + '.only-unroutable-discarded', all(p.flow_id == kw['noroute'] for p in missing) and
                  all(p.flow_id != kw['noroute'] for l in outs for (p, _, _) in l.log))
        else:
            conserve(tag, ins, outs, loss_ok=kw.get('loss_ok', False))
    # end to end: identity and header fields of everything that reached the sink
    src_snap = {}
    for g in gens:
        for (p, now, snap) in g[4].log:
            src_snap[id(p)] = snap
    for (p, now, snap) in L_sink.log:
        check('c08.sink-got-a-generated-packet', id(p) in src_snap)
        if id(p) in src_snap:
            check_unchanged('c08.end-to-end', p, src_snap[id(p)])
    for gi, g in enumerate(gens):
        gen, gaps, sizes, d0, link = g
        check_gen('c08', link, gaps, sizes, d0, gen.element_id, gen.flow_id, gaps.n)
    check_sink('c08', sink, L_sink, mode)
    if len(L_sink.log) >= 2:
        cover('nontrivial')
    obs('sunk', [(p.packet_id, p.flow_id, now) for (p, now, _) in L_sink.log])


def h_sinkburst(cfg):
    """a PacketSink (with and without its debug flag - a parameter like any other) receiving a dozen packets of one flow,
    many of them in one instant: the run does not raise and the counts are those of the packets delivered"""
    import io
    import contextlib
    from onl.sim import Environment
    from onl.packet import Packet, PacketSink
    env = Environment()
    sink = PacketSink(env, debug=cfg['debug'])
    n = cfg['n']
    sizes = []

    def source():
        for k in range(n):
            if k in cfg['gaps']:
                yield env.timeout(sym_num('g%d' % k, 'int', 0))
            # (debug mode formats byte totals with float(): sizes concrete there, instants symbolic in both modes)
            size = (1 + k % 3) if cfg['debug'] else sym_int('s%d' % k, 1, 3)
            sizes.append(size)
            sink.put(mk_packet(Packet, env.now, size, k, flow_id=4))

    env.process(source())
    try:
        with contextlib.redirect_stdout(io.StringIO()):
            env.run()
    except Exception as ex:  # noqa
        fail('no-raise', '%s: %s' % (type(ex).__name__, ex))
        return
    check('c08.sink-count', sink.packets_received[4] == n, sink.packets_received[4])
    check('c08.sink-bytes', eq(sink.bytes_received[4], ssum(sizes)))
    cover('sink-burst')
    cover('nontrivial')


HARNESSES = {'pipe': h_pipe, 'sinkburst': h_sinkburst}


def VIOL_KEY(cfg):
    return '%s/%s%s%s' % (cfg.get('pipe', 'sinkburst'), cfg.get('kind', ''), cfg.get('server', ''), '/classmap' if cfg.get('classmap') else '')


def jobs(tier, seed):
    js = []
    for dbg in (False, True):
        js.append({'harness': 'sinkburst', 'cfg': {'n': 12, 'gaps': [0, 11], 'debug': dbg}, 'weight': 5})
    n = 2
    big = 2 if tier == 'quick' else 3      # only the cheap pipelines get the longer workload in the thorough tier
    modes = [[True, True, True, True], [True, False, True, False], [False, True, True, True], [True, True, False, False]]
    mi = [0]

    def add(cfg, w=20, **opts):
        cfg.setdefault('n', n)
        cfg.setdefault('sorts', 'int' if mi[0] % 2 else 'real')
        cfg['sink_mode'] = modes[mi[0] % 4]
        mi[0] += 1
        js.append({'harness': 'pipe', 'cfg': cfg, 'weight': w, 'opts': opts})

    add({'pipe': 'port-wire', 'qlimit': 'sym', 'loss': None, 'n': big + 1}, 60)
    add({'pipe': 'port-wire', 'qlimit': None, 'loss': 0.5, 'sorts': 'int'}, 40)
    for kind in ('SP', 'WFQ', 'VC', 'DRR', 'RR', 'WRR'):
        c = {'pipe': 'fanin-sched', 'kind': kind, 'n1': 1, 'n': big if kind in ('SP', 'RR', 'WRR', 'VC') else 2}
        if kind == 'WFQ':
            c['float_inexact'] = True
        if kind == 'DRR':
            c['smax'] = 1600 if tier == 'quick' else 3200
        add(c, 50)
    for kind in ('SP', 'WFQ', 'VC', 'DRR'):
        c = {'pipe': 'fanin-sched', 'kind': kind, 'n1': 1, 'classmap': True, 'sorts': 'int'}
        if kind == 'DRR':
            c['smax'] = 1600
        add(c, 50)
    add({'pipe': 'fanout-demux', 'n': big}, 40)
    for server in ('simple', 'SP', 'WFQ', 'DRR', 'VirtualClock'):
        c = {'pipe': 'switch', 'server': server}
        if server == 'WFQ':
            c['float_inexact'] = True
        if server == 'DRR':
            c['smax'] = 1600
        add(c, 40)
    add({'pipe': 'tb-sp', 'peak': None}, 40)
    if tier != 'quick':
        add({'pipe': 'tb-sp', 'peak': 64, 'sorts': 'int'}, 60)
    else:
        add({'pipe': 'tb-sp', 'peak': 64, 'sorts': 'int', 'n': 1}, 60)
    add({'pipe': 'trtb-wire', 'loss': None, 'n': big}, 40)
    add({'pipe': 'trtb-wire', 'loss': 0.5, 'sorts': 'int'}, 40)
    return js


META = {
    'rule': 'one case = one feasible path of a pipeline workload (generator draws, wire delays, loss draws, qlimit symbolic); '
            'non-trivial = at least two packets reached the sink',
    'required_labels': ['c08.port.discards-are-counted', 'c08.wire.nothing-duplicated', 'c08.sched.nothing-lost',
                        'c08.sched.per-flow-order', 'c08.demux.only-unroutable-discarded', 'c08.switch.nothing-lost',
                        'c08.tb.nothing-lost', 'c08.trtb.nothing-lost', 'c08.end-to-end.field-unchanged', 'c08.gen-instant',
                        'c08.gen-size', 'c08.sink-count', 'c08.sink-bytes', 'c08.sink-arrival', 'c08.sink-wait'],
    'required_covers': ['nontrivial', 'discarded', 'sink-burst'],
    'bounds': {'quick': 'pipelines gen->port->wire->sink, {gen,gen}->scheduler(6 kinds)->port->sink, gens->FlowDemux->{port,port}->sink, '
                        'gens->Simple/FairPacketSwitch(SP,WFQ,DRR,VC)->sink, gen->TokenBucket->SP->sink, gen->TwoRateTokenBucket->wire->sink; '
                        '2 (+1) packets per main generator; all generator gaps/sizes, wire delays, loss draws symbolic; PacketSink in 4 recording modes; PacketSink with and without debug receiving 12 packets (11 in one instant)',
               'thorough': '3 (+1) packets per main generator for the SP/RR/WRR/VC fan-in, demux, port-wire and two-rate pipelines, 2 (+1) elsewhere'},
    'assumptions': ['DistPacketGenerator arrival_dist returns +inf after the n-th draw (the run is driven until the agenda holds only that)'],
    'stubs': ['arrival_dist / size_dist / delay_dist -> symbolic draws', 'onl.netdev.wire.random.uniform -> symbolic draw'],
    'outside': ['ProxyPacketGenerator, ProxySink, UDPDevice (real sockets)', 'longer workloads / deeper pipelines'],
}

MANIFEST = {
    'level_text': 'Bounded model checking by symbolic execution of real pipelines with a probe on every link: per element '
                  'in = out + discarded-by-rule with object identity, per-flow order, unchanged header fields end to end, generator '
                  'law and sink accounting, for all draws of each bounded workload.',
    'level_note': 'Trusted: z3, symx proxies (validated by concrete witness replay); pipelines and workload sizes bounded; the '
                  'per-element laws themselves are the subject of C09-C15.',
}
