"""C18 -- demuxes, switches, hubs, splitters and fat-tree FIBs deliver to the right place."""
from functools import partial

from symx import (sym_num, sym_int, choice, check, obs, cover, eq, ge, le, lt, gt, fail, And, Or, Not, assume)
from props.netcommon import Rec, mk_packet, snapshot, check_unchanged

PROPERTY = 'C18'


def _delivered(recs):
    return [(name, [p for p, _ in r.log]) for name, r in recs]


def _exactly(tag, recs, pkt, expected_name):
    """pkt reached exactly the output `expected_name` (None: no output at all), once"""
    for name, r in recs:
        got = sum(1 for p, _ in r.log if p is pkt)
        want = 1 if name == expected_name else 0
        check(tag, got == want, 'output %s got %d copies, expected %d (target %s)' % (name, got, want, expected_name))


def h_flowdemux(cfg):
    from onl.sim import Environment
    from onl.packet import Packet
    from onl.netdev.demux import FlowDemux
    env = Environment()
    k = cfg['nouts']
    outs = [Rec(env, 'o%d' % i) for i in range(k)]
    dflt = Rec(env, 'default') if cfg['default'] else None
    dm = FlowDemux(outs, dflt)
    f = sym_int('flow', 0, k + 1)
    pkt = mk_packet(Packet, 0, sym_int('size', 1), 1, flow_id=f)
    try:
        dm.put(pkt)
    except Exception as ex:  # noqa
        fail('no-raise', '%s: %s' % (type(ex).__name__, ex))
        return
    recs = [('o%d' % i, o) for i, o in enumerate(outs)] + ([('default', dflt)] if dflt else [])
    hit = [name for name, r in recs if any(p is pkt for p, _ in r.log)]
    check('c18.flowdemux-at-most-one', len(hit) <= 1 and sum(len(r.log) for _, r in recs) == len(hit))
    if hit and hit[0] != 'default':
        check('c18.flowdemux-rule', eq(f, int(hit[0][1:])), hit)
    elif hit:
        check('c18.flowdemux-rule', ge(f, k), hit)
    else:
        check('c18.flowdemux-rule', And(ge(f, k), dflt is None), 'nowhere')
    cover('nontrivial')
    obs('hit', hit)


def h_fibdemux(cfg):
    from onl.sim import Environment
    from onl.packet import Packet
    from onl.netdev.demux import FIBDemux
    env = Environment()
    k = cfg['nouts']
    outs = [Rec(env, 'o%d' % i) for i in range(k)]
    dflt = Rec(env, 'default') if cfg['default'] else None
    ends = {f: Rec(env, 'end%d' % f) for f in cfg['ends']}
    fib = {f: sym_int('port%d' % f, 0, k) for f in cfg['fib_flows']}     # k = out of range
    if cfg.get('raising_out'):
        # the named output is a device whose own put() fails with a KeyError (a mis-wired next stage): that is the next stage's
        # error, not a missing table entry - it must surface, and the packet must not be handed to the default output as well
        class Raiser:
            element_id = 'raiser'

            def __init__(self):
                self.log = []

            def put(self, packet):
                self.log.append((packet, 0))
                raise KeyError('downstream')
        outs = [Raiser() for _ in range(k)]
    dm = FIBDemux(outs=outs if k else None, ends=dict(ends) if ends else None, fib=fib, default_out=dflt)     # no outputs: outs omitted
    fl = choice('flow', cfg['nflows'])
    pkt = mk_packet(Packet, 0, sym_int('size', 1), 1, flow_id=fl)
    try:
        dm.put(pkt)
        surfaced = False
    except KeyError as ex:
        if not cfg.get('raising_out'):
            fail('no-raise', '%s: %s (fib=%s)' % (type(ex).__name__, ex, sorted(cfg['fib_flows'])))
            return
        surfaced = True
    except Exception as ex:  # noqa
        fail('no-raise', '%s: %s (fib=%s)' % (type(ex).__name__, ex, sorted(cfg['fib_flows'])))
        return
    if cfg.get('raising_out'):
        reached = [o for o in outs if o.log]
        if reached:
            check('c18.fibdemux-at-most-one', surfaced and (dflt is None or not dflt.log),
                  'the next stage failed inside put(): swallowed=%s, default output got %d' % (not surfaced, len(dflt.log) if dflt else 0))
            cover('downstream-error-surfaces')
        cover('nontrivial')
        return
    recs = [('o%d' % i, o) for i, o in enumerate(outs)] + ([('default', dflt)] if dflt else []) + \
        [('end%d' % f, e) for f, e in ends.items()]
    hit = [name for name, r in recs if any(p is pkt for p, _ in r.log)]
    check('c18.fibdemux-at-most-one', len(hit) <= 1 and sum(len(r.log) for _, r in recs) == len(hit), hit)
    where = hit[0] if hit else None
    if fl in ends:
        check('c18.fibdemux-rule', where == 'end%d' % fl, (fl, where))
        cover('to-end-device')
    elif fl in fib:
        port = fib[fl]
        if where is not None and where.startswith('o'):
            check('c18.fibdemux-rule', eq(port, int(where[1:])), (fl, where))
            cover('to-fib-port')
        elif where == 'default':
            check('c18.fibdemux-rule', ge(port, k), (fl, where))
            cover('bad-port-to-default')
        else:
            check('c18.fibdemux-rule', And(ge(port, k), dflt is None), (fl, where))
    else:
        check('c18.fibdemux-rule', where == ('default' if dflt else None), (fl, where))
        cover('unknown-flow')
    if not cfg['fib_flows']:
        cover('empty-fib')
    if cfg.get('second'):
        # (a) the table is changed in place after the first packet: the next packet of the flow follows the table as it is now;
        # (b) a second demux built the same way shares nothing with the first: an end device registered on the first one
        #     afterwards is unknown to the second
        for r_ in [r for _, r in recs]:
            del r_.log[:]
        f2 = cfg['fib_flows'][0] if cfg['fib_flows'] else 0
        if cfg['fib_flows'] and k >= 2 and f2 not in ends:
            old = dm.fib[f2]
            newport = 1 - old if isinstance(old, int) and old in (0, 1) else 0
            dm.fib[f2] = newport
            p2 = mk_packet(Packet, 0, 1, 2, flow_id=f2)
            try:
                dm.put(p2)
            except Exception as ex:  # noqa
                fail('no-raise', 'second packet: %s: %s' % (type(ex).__name__, ex))
                return
            check('c18.fibdemux-follows-the-table-as-it-is', any(p is p2 for p, _ in outs[newport].log) and
                  sum(len(r.log) for _, r in recs) == 1, [name for name, r in recs if r.log])
            cover('table-changed-in-place')
        twin_outs = [Rec(env, 't%d' % i) for i in range(k)]
        twin_default = Rec(env, 'tdefault')
        twin = FIBDemux(outs=twin_outs, fib={}, default_out=twin_default)
        late_end = Rec(env, 'late-end')
        dm2 = FIBDemux(outs=[Rec(env, 'x')], fib={}, default_out=None)
        dm2.ends[9] = late_end
        p3 = mk_packet(Packet, 0, 1, 3, flow_id=9)
        try:
            twin.put(p3)
        except Exception as ex:  # noqa
            fail('no-raise', 'twin: %s: %s' % (type(ex).__name__, ex))
            return
        check('c18.instances-independent', len(late_end.log) == 0 and any(p is p3 for p, _ in twin_default.log),
              'an end device registered on one demux received a packet put into another')
        cover('two-instances')
    cover('nontrivial')
    obs('hit', where)


def h_switch(cfg):
    from onl.sim import Environment
    from onl.packet import Packet
    from onl.netdev import SimplePacketSwitch, FairPacketSwitch
    env = Environment()
    k = cfg['nports']
    recs = [Rec(env, 'o%d' % i) for i in range(k)]
    n = cfg['n']
    if cfg['kind'] == 'simple':
        sw = SimplePacketSwitch(env, k, 8, 10, element_id='sw')
        rule = lambda f: f if f < k else None
        nflows = k + 1
    else:
        weights = {c: 1 + c for c in range(cfg['nflows'])}
        sw = FairPacketSwitch(env, k, 8, 10, weights, cfg['server'], element_id='sw')
        fib = {int(f): p for f, p in cfg['fib'].items()}
        sw.demux.fib = fib
        rule = lambda f: fib[f] if f in fib and fib[f] < k else None
        nflows = cfg['nflows']
    for i in range(k):
        sw.ports[i].out = recs[i]
    pk = []

    def source():
        for j in range(n):
            yield env.timeout(sym_num('g%d' % j, 'int', 0))
            fl = choice('flow%d' % j, nflows)
            p = mk_packet(Packet, env.now, sym_int('s%d' % j, 1, cfg.get('smax')), j, flow_id=fl)
            pk.append((p, snapshot(p)))
            sw.put(p)

    env.process(source())
    try:
        env.run()
    except Exception as ex:  # noqa
        fail('no-raise', '%s: %s' % (type(ex).__name__, ex))
        return
    named = [('o%d' % i, r) for i, r in enumerate(recs)]
    for p, snap in pk:
        tgt = rule(p.flow_id)
        _exactly('c18.switch-route', named, p, None if tgt is None else 'o%d' % tgt)
        check_unchanged('c18.switch', p, snap)
    cover('nontrivial')


class Fwd:
    """a port-like device between hub and endpoint: logs and forwards to .out"""

    def __init__(self, name):
        self.name = name
        self.out = None
        self.log = []
        self.element_id = name

    def put(self, pkt):
        self.log.append(pkt)
        if self.out is not None:
            self.out.put(pkt)


def h_hub(cfg):
    from onl.sim import Environment
    from onl.packet import Packet
    from onl.netdev import Hub
    env = Environment()
    m = cfg['nend']
    ends = [Rec(env, 'e%d' % i) for i in range(m)]
    if cfg.get('anonymous_last'):
        # the last endpoint is a library device that was never given an element id (a PacketSink, as in the demos)
        from onl.packet import PacketSink

        class SinkRec(PacketSink):
            def __init__(self, env):
                super().__init__(env)
                self.log = []

            def put(self, packet):
                self.log.append((packet, self.env.now))
                super().put(packet)
        ends[-1] = SinkRec(env)
    mode = cfg['ports']
    try:
        if mode == 'none':
            ports = None
            hub = Hub(env, ends)
        elif mode == 'ctor-empty':
            ports = None
            hub = Hub(env, ends, [])
        elif mode == 'all':
            ports = [Fwd('p%d' % i) for i in range(m)]
            hub = Hub(env, ends, ports)
        elif mode == 'mixed':
            ports = [Fwd('p%d' % i) if i % 2 == 0 else None for i in range(m)]
            hub = Hub(env, ends, ports)
        else:   # add_endpoint one by one
            ports = [Fwd('p%d' % i) if i % 2 == 1 else None for i in range(m)]
            hub = Hub(env)
            for e, p in zip(ends, ports):
                hub.add_endpoint(e, p)
    except Exception as ex:  # noqa
        fail('no-raise', 'Hub(): %s: %s' % (type(ex).__name__, ex))
        return
    s = choice('sender', m + 1)          # m = a source that is not attached
    src = 'e%d' % s if s < m else 'outsider'
    pkt = mk_packet(Packet, 0, sym_int('size', 1), 1, src=src)
    try:
        hub.put(pkt)
    except Exception as ex:  # noqa
        fail('no-raise', 'put: %s: %s' % (type(ex).__name__, ex))
        return
    if cfg.get('anonymous_last') and s == m - 1:
        s = m           # the name 'e<m-1>' belongs to no attached endpoint (the last one is anonymous): an outside sender
    for i, e in enumerate(ends):
        got = sum(1 for p, _ in e.log if p is pkt)
        check('c18.hub-repeat', got == (0 if i == s else 1), 'endpoint %d got %d (sender %s)' % (i, got, src))
        check('c18.hub-endpoint-out', e.out is hub)
        if ports and ports[i] is not None:
            check('c18.hub-via-port', len(ports[i].log) == (0 if i == s else 1), i)
            cover('via-port')
    cover('nontrivial')


def h_splitter(cfg):
    from onl.sim import Environment
    from onl.packet import Packet
    from onl.netdev import Splitter, NSplitter
    env = Environment()
    N = cfg['N']
    recs = [Rec(env, 'o%d' % i) for i in range(N)]
    if cfg.get('stamping_first'):
        # the first output is a device that stamps the packet the moment it receives it (as every Port does)
        def stamp(p):
            p.perhop_time['first-output'] = 5
        recs[0] = Rec(env, 'o0', on_put=stamp)
    if cfg['kind'] == 'two':
        sp = Splitter()
        if 0 not in cfg.get('unset', []):
            sp.out1 = recs[0]
        if 1 not in cfg.get('unset', []):
            sp.out2 = recs[1]
    else:
        sp = NSplitter(N)
        for i in range(N):
            if i not in cfg.get('unset', []):
                sp.outs[i] = recs[i]
    size = sym_int('size', 1)
    pkt = mk_packet(Packet, sym_int('t', 0), size, sym_int('pid', 0), flow_id=sym_int('flow', 0, 3))
    # header fields a packet acquires on its way are part of it too
    pkt.ack = sym_int('ack', 0)
    pkt.color = 'yellow'
    pkt.dst = 'there'
    pkt.priorities[3] = 5
    pkt.perhop_time['p1'] = pkt.time
    pkt.current_time = pkt.time
    snap = snapshot(pkt)
    full = {k: (dict(v) if isinstance(v, dict) else v) for k, v in vars(pkt).items()}     # as handed to the splitter
    try:
        sp.put(pkt)
    except Exception as ex:  # noqa
        fail('no-raise', '%s: %s' % (type(ex).__name__, ex))
        return
    unset = cfg.get('unset', [])
    for i, r in enumerate(recs):
        if i in unset:
            check('c18.splitter-fanout', len(r.log) == 0, i)
            continue
        check('c18.splitter-fanout', len(r.log) == 1, (i, len(r.log)))
        if len(r.log) != 1:
            return
    if 0 not in unset:
        check('c18.splitter-original-first', recs[0].log[0][0] is pkt)
    copies = [r.log[0][0] for i, r in enumerate(recs) if i > 0 and i not in unset]
    objs = ([pkt] if 0 not in unset else []) + copies
    check('c18.splitter-distinct-objects', len({id(o) for o in objs}) == len(objs))
    # every output but the first gets a copy - also when the first output is not plugged in
    check('c18.splitter-distinct-objects', all(c is not pkt for c in copies), 'an output other than the first received the original')
    for c in copies:
        check('c18.splitter-copy-as-received', 'first-output' not in c.perhop_time,
              'the copy carries a stamp the first output put on the original')
        check_unchanged('c18.splitter-copy', c, snap)
        check('c18.splitter-copy-complete', set(vars(c)) == set(full), sorted(set(full) ^ set(vars(c))))
        for k, v in full.items():
            cv = getattr(c, k, None)
            if k in ('ack', 'current_time', 'realtime'):
                check('c18.splitter-copy-complete', eq(cv, v), k)
            elif k in ('color', 'dst'):
                check('c18.splitter-copy-complete', cv == v, k)
            elif k in ('priorities', 'perhop_time'):
                check('c18.splitter-copy-complete', isinstance(cv, dict) and set(cv) == set(v), k)
    # independent header fields: change every copy, the original and the other copies stay
    for j, c in enumerate(copies):
        c.flow_id = 1000 + j
        c.size = c.size + 1 + j
        c.packet_id = -1 - j
        c.src = 'changed%d' % j
        c.time = c.time + 5
        # the per-hop stamps and the priority marks are header fields as well (every port / SP scheduler behind an output writes them)
        c.perhop_time['behind-out%d' % j] = 77
        c.priorities[100 + j] = 1
    check_unchanged('c18.splitter-independent', pkt, snap)
    own = ['first-output', 'p1'] if cfg.get('stamping_first') else ['p1']
    check('c18.splitter-independent', sorted(pkt.perhop_time) == own and sorted(pkt.priorities) == [3],
          'stamps written on a copy show up on the original: %s %s' % (sorted(pkt.perhop_time), sorted(pkt.priorities)))
    for j, c in enumerate(copies):
        check('c18.splitter-independent', sorted(c.perhop_time) == sorted(['p1', 'behind-out%d' % j]) and
              sorted(c.priorities) == [3, 100 + j], 'stamps written on one copy show up on another: %s' % sorted(c.perhop_time))
    for j, c in enumerate(copies):
        check('c18.splitter-independent', eq(c.size, size + 1 + j) and c.flow_id == 1000 + j, j)
    cover('nontrivial')


# --- fat tree ---------------------------------------------------------------------------

_PIN = {'src': False}


def _sample_stub(population, k):
    pop = list(population)
    if k == 1:
        return [pop[choice('path', len(pop))]]
    if k == 2:
        i = 0 if _PIN['src'] else choice('src', len(pop))
        j = choice('dst', len(pop) - 1)
        if j >= i:
            j += 1
        return [pop[i], pop[j]]
    raise ValueError('unexpected sample size')


def _check_structure(ft, k):
    import networkx as nx
    g = ft.topo
    layer = {}
    for n in g.nodes():
        layer.setdefault(g.nodes[n]['layer'], []).append(n)
    check('c18.ft-core', len(layer.get('core', [])) == (k // 2) ** 2)
    check('c18.ft-aggregation', len(layer.get('aggregation', [])) == k * k // 2)
    check('c18.ft-edge', len(layer.get('edge', [])) == k * k // 2)
    check('c18.ft-hosts', len(layer.get('leaf', [])) == k ** 3 // 4 and set(layer.get('leaf', [])) == set(ft.hosts))
    for n in g.nodes():
        d = g.degree(n)
        if g.nodes[n]['type'] == 'switch':
            check('c18.ft-switch-degree', d == k, (n, d))
        else:
            check('c18.ft-host-degree', d == 1, (n, d))
            nb = list(g.neighbors(n))[0]
            check('c18.ft-host-on-edge-switch', g.nodes[nb]['layer'] == 'edge')
    for n in layer.get('edge', []):
        hosts = [h for h in g.neighbors(n) if g.nodes[h]['type'] == 'host']
        check('c18.ft-hosts-per-edge', len(hosts) == k // 2, (n, len(hosts)))
    # layering: core-aggregation, aggregation-edge only
    ok = {('core', 'aggregation'), ('aggregation', 'edge'), ('edge', 'leaf')}
    for a, b in g.edges():
        la, lb = g.nodes[a]['layer'], g.nodes[b]['layer']
        check('c18.ft-layering', (la, lb) in ok or (lb, la) in ok, (a, b, la, lb))
    check('c18.ft-connected', nx.is_connected(g))


def _walk(ft, fid, src, dst, limit):
    g = ft.topo
    cur, path = src, [src]
    while cur != dst and len(path) <= limit:
        node = g.nodes[cur]
        if fid not in node['flow_to_port']:
            return path, 'no entry at %s' % cur
        port = node['flow_to_port'][fid]
        if port not in node['port_to_nexthop']:
            return path, 'bad port at %s' % cur
        nh = node['port_to_nexthop'][port]
        if node['flow_to_nexthop'].get(fid) != nh:
            return path, 'flow_to_nexthop disagrees at %s' % cur
        cur = nh
        path.append(cur)
    return path, None


def h_fattree(cfg):
    import networkx as nx
    import onl.topo.fattree as ftm
    from onl.topo import FatTree
    k, nflows, tcp = cfg['k'], cfg['nflows'], cfg['tcp']
    saved = ftm.sample
    ftm.sample = _sample_stub
    _PIN['src'] = bool(cfg.get('pin_src'))     # larger k: the source is the first host (pod symmetry), every destination and path
    try:
        ft = FatTree(k)
        _check_structure(ft, k)
        if cfg.get('fix_first'):
            # first flow pinned to a representative host pair (pod symmetry), the rest chosen by the solver
            pass
        flows = ft.generate_flows(nflows)
        ft.generate_fib(flows, tcp=tcp)
    except Exception as ex:  # noqa
        fail('no-raise', '%s: %s' % (type(ex).__name__, ex))
        return
    finally:
        ftm.sample = saved
    g = ft.topo
    check('c18.ft-flow-count', sorted(flows.keys()) == list(range(nflows)))
    for fid, fl in flows.items():
        check('c18.ft-flow-endpoints', fl.src != fl.dst and fl.src in ft.hosts and fl.dst in ft.hosts, (fl.src, fl.dst))
        p = fl.path
        good = p[0] == fl.src and p[-1] == fl.dst and all(g.has_edge(a, b) for a, b in zip(p, p[1:]))
        check('c18.ft-path-shortest', good and len(p) - 1 == nx.shortest_path_length(g, fl.src, fl.dst), p)
        w, err = _walk(ft, fid, fl.src, fl.dst, len(g))
        check('c18.ft-fib-follows-path', err is None and w == list(p), (fid, w, err, p))
        if tcp:
            w, err = _walk(ft, fid + 10000, fl.dst, fl.src, len(g))
            check('c18.ft-fib-reverse', err is None and w == list(reversed(p)), (fid, w, err))
            cover('reverse-entries')
    if nflows >= 2:
        shared = set(zip(flows[0].path, flows[0].path[1:])) & set(zip(flows[1].path, flows[1].path[1:]))
        if shared:
            cover('flows-share-a-link')
    if cfg.get('e2e'):
        _end_to_end(ft, flows, k, cfg, tcp)
    cover('nontrivial')
    obs('flows', [[f.src, f.dst, list(f.path)] for f in flows.values()])


def _flow_to_classes(flow_id, n_id, fib, n):
    return (flow_id + n_id + fib.get(flow_id, 0)) % n


def _end_to_end(ft, flows, k, cfg, tcp):
    """the real switches instantiated from the generated FIBs (as tests/apps/fattree.py does)"""
    from onl.sim import Environment
    from onl.packet import Packet
    from onl.netdev import FairPacketSwitch
    env = Environment()
    g = ft.topo
    ncls = cfg.get('nclasses', 2)
    weights = {c: 1 for c in range(ncls)}
    try:
        for n in g.nodes():
            node = g.nodes[n]
            f2c = partial(_flow_to_classes, n_id=n, fib=node['flow_to_port'], n=ncls)
            node['device'] = FairPacketSwitch(env, k, 8192, 100, weights, cfg['server'], element_id=str(n),
                                              flow2class=f2c)
            node['device'].demux.fib = node['flow_to_port']
        for n in g.nodes():
            node = g.nodes[n]
            for port, nh in node['port_to_nexthop'].items():
                node['device'].ports[port].out = g.nodes[nh]['device']
        sinks = {}
        for fid, fl in flows.items():
            sinks[fid] = Rec(env, 'sink%d' % fid)
            g.nodes[fl.dst]['device'].demux.ends[fid] = sinks[fid]
            if tcp:
                sinks[fid + 10000] = Rec(env, 'rsink%d' % fid)
                g.nodes[fl.src]['device'].demux.ends[fid + 10000] = sinks[fid + 10000]
        pk = {}

        def source():
            yield env.timeout(0)
            for fid, fl in flows.items():
                size = cfg['conc_size'] + fid if cfg.get('conc_size') else sym_int('s%d' % fid, 1, cfg.get('smax'))
                p = mk_packet(Packet, env.now, size, fid, flow_id=fid)
                pk[fid] = p
                g.nodes[fl.src]['device'].put(p)
                if tcp:
                    a = mk_packet(Packet, env.now, 40, fid, flow_id=fid + 10000)
                    pk[fid + 10000] = a
                    g.nodes[fl.dst]['device'].put(a)

        env.process(source())
        env.run()
    except Exception as ex:  # noqa
        fail('no-raise', 'end-to-end: %s: %s' % (type(ex).__name__, ex))
        return
    named = [(str(fid), r) for fid, r in sinks.items()]
    for fid, p in pk.items():
        _exactly('c18.ft-end-to-end', named, p, str(fid))
    cover('end-to-end')


HARNESSES = {'flowdemux': h_flowdemux, 'fibdemux': h_fibdemux, 'switch': h_switch, 'hub': h_hub,
             'splitter': h_splitter, 'fattree': h_fattree}


def VIOL_KEY(cfg):
    return '%s/%s/%s' % (cfg.get('ports', ''), cfg.get('server', ''), sorted(cfg.get('fib_flows', ['x']))[:1])


def jobs(tier, seed):
    js = []
    for k in (1, 2, 3):
        for d in (True, False):
            js.append({'harness': 'flowdemux', 'cfg': {'nouts': k, 'default': d}})
    for fib_flows in ([], [0], [0, 1]):
        for ends in ([], [1], [0, 2]):
            for d in (True, False):
                js.append({'harness': 'fibdemux', 'cfg': {'nouts': 2, 'default': d, 'ends': ends,
                                                          'fib_flows': fib_flows, 'nflows': 4}})
    for fib_flows in ([0], [0, 1]):
        js.append({'harness': 'fibdemux', 'cfg': {'nouts': 2, 'default': True, 'ends': [], 'fib_flows': fib_flows, 'nflows': 2, 'second': True}})
    js.append({'harness': 'switch', 'cfg': {'kind': 'simple', 'nports': 2, 'n': 2 if tier == 'quick' else 3}, 'weight': 20})
    for server in ('SP', 'WFQ', 'DRR', 'VirtualClock'):
        cfg = {'kind': 'fair', 'server': server, 'nports': 2, 'n': 2 if tier == 'quick' else 3, 'nflows': 3,
               'fib': {0: 1, 1: 0, 2: 1}}
        if server == 'DRR':
            cfg['smax'] = 3200
        if server == 'WFQ':
            cfg['float_inexact'] = True
        js.append({'harness': 'switch', 'cfg': cfg, 'weight': 20})
    for m in (1, 2, 3, 4):
        for mode in ('none', 'ctor-empty', 'all', 'mixed', 'add'):
            js.append({'harness': 'hub', 'cfg': {'nend': m, 'ports': mode}})
    for mode in ('none', 'all'):
        js.append({'harness': 'hub', 'cfg': {'nend': 3, 'ports': mode, 'anonymous_last': True}})
    js.append({'harness': 'fibdemux', 'cfg': {'nouts': 2, 'default': True, 'ends': [], 'fib_flows': [0, 1], 'nflows': 2, 'raising_out': True}})
    for d in (True, False):
        js.append({'harness': 'fibdemux', 'cfg': {'nouts': 0, 'default': d, 'ends': [1], 'fib_flows': [0], 'nflows': 3}})
    js.append({'harness': 'splitter', 'cfg': {'kind': 'two', 'N': 2}})
    js.append({'harness': 'splitter', 'cfg': {'kind': 'two', 'N': 2, 'unset': [0]}})
    js.append({'harness': 'splitter', 'cfg': {'kind': 'two', 'N': 2, 'stamping_first': True}})
    js.append({'harness': 'splitter', 'cfg': {'kind': 'n', 'N': 3, 'stamping_first': True}})
    js.append({'harness': 'splitter', 'cfg': {'kind': 'two', 'N': 2, 'unset': [1]}})
    for N in (2, 3, 4):
        js.append({'harness': 'splitter', 'cfg': {'kind': 'n', 'N': N}})
    js.append({'harness': 'splitter', 'cfg': {'kind': 'n', 'N': 3, 'unset': [1]}})
    js.append({'harness': 'splitter', 'cfg': {'kind': 'n', 'N': 3, 'unset': [0]}})
    # fat tree
    for tcp in (False, True):
        js.append({'harness': 'fattree', 'cfg': {'k': 2, 'nflows': 2, 'tcp': tcp, 'e2e': True, 'server': 'WFQ', 'nclasses': 1,
                                                 'conc_size': 100 if tcp else None}, 'weight': 10})
        js.append({'harness': 'fattree', 'cfg': {'k': 4, 'nflows': 1, 'tcp': tcp, 'e2e': True, 'server': 'WFQ', 'conc_size': 100},
                   'weight': 200})
    js.append({'harness': 'fattree', 'cfg': {'k': 2, 'nflows': 2, 'tcp': True, 'e2e': True, 'server': 'DRR', 'nclasses': 1,
                                             'conc_size': 1000}, 'weight': 10})
    js.append({'harness': 'fattree', 'cfg': {'k': 2, 'nflows': 2, 'tcp': False, 'e2e': True, 'server': 'SP', 'nclasses': 2},
               'weight': 10})
    js.append({'harness': 'fattree', 'cfg': {'k': 2, 'nflows': 2, 'tcp': True, 'e2e': True, 'server': 'VirtualClock', 'nclasses': 1,
                                             'conc_size': 100}, 'weight': 10})
    # larger trees (host pairs in one pod under different edge switches have detours no longer than the diameter)
    js.append({'harness': 'fattree', 'cfg': {'k': 6, 'nflows': 1, 'tcp': True, 'e2e': False, 'pin_src': True}, 'weight': 300,
               'opts': {'max_paths': 40000}})
    if tier != 'quick':
        js.append({'harness': 'fattree', 'cfg': {'k': 8, 'nflows': 1, 'tcp': False, 'e2e': False, 'pin_src': True}, 'weight': 2000,
                   'opts': {'max_paths': 40000}})
        js.append({'harness': 'fattree', 'cfg': {'k': 6, 'nflows': 1, 'tcp': True, 'e2e': False}, 'weight': 2000,
                   'opts': {'max_paths': 40000}})
        js.append({'harness': 'fattree', 'cfg': {'k': 4, 'nflows': 2, 'tcp': True, 'e2e': True, 'server': 'WFQ', 'nclasses': 1, 'conc_size': 100},
                   'weight': 5000, 'opts': {'max_paths': 60000}})
    return js


META = {
    'rule': 'one case = one feasible path: a (flow id, table entries, population, sender) valuation or one outcome of the '
            'fat-tree flow sampler (host pair and shortest path per flow)',
    'required_labels': ['c18.flowdemux-rule', 'c18.fibdemux-rule', 'c18.switch-route', 'c18.hub-repeat', 'c18.hub-via-port',
                        'c18.splitter-independent', 'c18.ft-fib-follows-path', 'c18.ft-fib-reverse', 'c18.ft-end-to-end',
                        'c18.ft-switch-degree'],
    'required_covers': ['nontrivial', 'empty-fib', 'to-end-device', 'bad-port-to-default', 'unknown-flow', 'via-port',
                        'end-to-end', 'reverse-entries'],
    'bounds': {'quick': 'FlowDemux 1-3 outputs; FIBDemux 2 outputs, FIB over <=2 flows with symbolic ports (incl. out of range), 4 flow ids; '
                        'switches 2 ports, 2 packets; hubs 1-4 endpoints; splitters N<=4; FatTree k=2 (all 2-flow sets, end to end) and '
                        'k=4 (every single flow: all ordered host pairs x all shortest paths), k=6 (first host to every destination over every path); splitter copies with own dict fields, taken before hand-over; one output unplugged; demux table changed in place; two demuxes side by side; FatTree k=6 from the first host',
               'thorough': 'switch workloads of 3; FatTree k=8 from the first host, k=6 single flows and k=4 pairs of flows up to a path budget'},
    'assumptions': ['flow ids and port numbers are non-negative', 'the fat-tree sampler is replaced by a finite-domain stub: the '
                    'solver enumerates its outcomes (this axis is enumeration, not symbolic reasoning)'],
    'stubs': ['onl.topo.fattree.sample -> solver-chosen indices'],
    'outside': ['FatTree k >= 8, flow sets larger than 2', 'RandomDemux'],
}

MANIFEST = {
    'level_text': 'Bounded model checking by symbolic execution of the real demultiplexers, switches, hub, splitters and the '
                  'fat-tree generator: routing decision tables proved for symbolic flow ids / port numbers, and every outcome of '
                  'the flow sampler within the bound followed hop by hop through the generated FIBs and through real switches.',
    'level_note': 'Trusted: z3, symx proxies (validated by concrete witness replay), networkx for the shortest-path oracle; '
                  'structure bounds as stated; sampler outcomes are enumerated.',
}
