#!/usr/bin/env python3
"""Append a 'fixed' (or 'open') entry to known_findings.json (used by hand during development only;
checks never write this file)."""
import json, sys, os
p = os.path.join(os.path.dirname(os.path.abspath(__file__)), 'known_findings.json')
d = json.load(open(p)) if os.path.exists(p) else {'findings': []}
status, prop, commit, what = sys.argv[1:5]
e = {'status': status, 'property': prop, 'commit': commit, 'what': what,
     'text': '%s: property=%s %s %s' % (status, prop, commit, what)}
for extra in sys.argv[5:]:
    k, v = extra.split('=', 1)
    e[k] = json.loads(v)
d['findings'].append(e)
json.dump(d, open(p, 'w'), indent=1)
