"""Concrete side: re-run harnesses with plain Python numbers against /repo.

Run under the repository's own interpreter:
    /venv/bin/python /verif/symx/concrete.py   < items.jsonl  > results.jsonl
Each input line: {"module": "props.c01", "harness": "...", "cfg": {...}, "inputs": {...}}
"""
import sys
import os
import json
import signal
import importlib
import io
import contextlib
from fractions import Fraction

HERE = os.path.dirname(os.path.dirname(os.path.abspath(__file__)))
REPO = os.environ.get('VERIF_REPO', '/repo')
for p in (HERE, REPO):
    if p not in sys.path:
        sys.path.insert(0, p)

import symx  # noqa: E402
from symx import ConcreteCtx, PathTimeout, HarnessError  # noqa: E402


def dec(o):
    if isinstance(o, dict):
        if '__q__' in o:
            n, d = o['__q__']
            return n / d
        return {k: dec(v) for k, v in o.items()}
    if isinstance(o, list):
        return [dec(v) for v in o]
    return o


def enc(o):
    if isinstance(o, Fraction):
        if o.denominator == 1:
            return int(o)
        return {'__q__': [o.numerator, o.denominator]}
    if isinstance(o, float):
        if o == float('inf'):
            return 'inf'
        if o == float('-inf'):
            return '-inf'
        if o != o:
            return 'nan'
        return o
    if isinstance(o, (list, tuple)):
        return [enc(v) for v in o]
    if isinstance(o, dict):
        return {str(k): enc(v) for k, v in o.items()}
    if o is None or isinstance(o, (int, str, bool)):
        return o
    return repr(type(o).__name__)


def _alarm(signum, frame):
    raise PathTimeout('path watchdog')


def run_one(item, watchdog_s=20.0):
    mod = importlib.import_module(item['module'])
    h = mod.HARNESSES[item['harness']]
    c = ConcreteCtx(dec(item['inputs']))
    symx.set_ctx(c)
    err = None
    signal.signal(signal.SIGALRM, _alarm)
    signal.setitimer(signal.ITIMER_REAL, watchdog_s)
    buf = io.StringIO()
    try:
        with contextlib.redirect_stdout(buf):
            h(item['cfg'])
    except PathTimeout:
        c.flags.append('timeout')
    except HarnessError as ex:
        err = 'HarnessError: %s' % ex
    except Exception as ex:  # noqa
        import traceback
        err = 'escaped %s: %s\n%s' % (type(ex).__name__, ex, traceback.format_exc(limit=8))
    finally:
        signal.setitimer(signal.ITIMER_REAL, 0)
        symx.set_ctx(None)
    return {'obs': enc(c.obs), 'failed': [[l, str(i)] for l, i in c.failed],
            'flags': c.flags, 'error': err, 'nchecks': c.nchecks,
            'reached': c.reached}


def main():
    for line in sys.stdin:
        line = line.strip()
        if not line:
            continue
        item = json.loads(line)
        try:
            r = run_one(item)
        except Exception as ex:  # noqa
            r = {'obs': [], 'failed': [], 'flags': [], 'error': 'runner: %r' % (ex,), 'nchecks': 0,
                 'reached': {}}
        sys.stdout.write(json.dumps(r) + '\n')
        sys.stdout.flush()


if __name__ == '__main__':
    main()
