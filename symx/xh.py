"""Second engine: CrossHair on function-level harnesses (xh/xh_cNN.py). "Confirmed over all paths" must agree with
symx's verdict; a CrossHair counterexample is replayed concretely on /venv/bin/python (the only arbiter of a
VIOLATION); "Not confirmed" / "Unable to meet precondition" count for nothing (inconclusive)."""
import os
import re
import sys
import json
import subprocess

VERIF = os.path.dirname(os.path.dirname(os.path.abspath(__file__)))
REPO = os.environ.get('VERIF_REPO', '/repo')
VENV_PY = os.environ.get('VERIF_VENV_PY', '/venv/bin/python')


def _def_lines(path):
    out = {}
    for i, l in enumerate(open(path), 1):
        m = re.match(r'def (\w+)\(', l)
        if m:
            out[m.group(1)] = i
    return out


def run(modname, tier, per_condition_timeout=None):
    import importlib
    mod = importlib.import_module(modname)
    path = mod.__file__
    targets = mod.TARGETS[tier]
    lines = _def_lines(path)
    tmo = per_condition_timeout or (25 if tier == 'quick' else 120)
    env = dict(os.environ)
    env['PYTHONPATH'] = VERIF + os.pathsep + REPO
    procs = []
    for fn in targets:
        p = subprocess.Popen(['python3-vt', '-m', 'crosshair', 'check', '--report_all', '--per_condition_timeout', str(tmo),
                              '%s:%d' % (path, lines[fn] + 1)], stdout=subprocess.PIPE, stderr=subprocess.STDOUT, text=True,
                             env=env, cwd=VERIF)
        procs.append((fn, p))
    res = []
    for fn, p in procs:
        try:
            out, _ = p.communicate(timeout=tmo * 4 + 60)
        except subprocess.TimeoutExpired:
            p.kill()
            out = 'timeout'
        verdict, info, ok = 'inconclusive', out.strip()[-300:], 'inconclusive'
        if 'Confirmed over all paths' in out:
            verdict, ok = 'confirmed', True
        m = re.search(r'error: (.*) when calling (\w+)\((.*)\)', out)
        if m:
            verdict = 'counterexample'
            try:
                kwargs = eval('dict(%s)' % m.group(3), {'__builtins__': {}}, {'dict': dict})
            except Exception:  # noqa
                kwargs = None
            if kwargs is not None:
                code = ('import sys,json; sys.path[:0]=[%r,%r]; import importlib; m=importlib.import_module(%r); '
                        'r=False\ntry:\n r=bool(getattr(m,%r)(**json.loads(%r)))\nexcept Exception as e:\n print("raised",repr(e))\nprint("HOLDS" if r else "FAILS")'
                        % (VERIF, REPO, modname, fn, json.dumps(kwargs)))
                rp = subprocess.run([VENV_PY, '-c', code], capture_output=True, text=True)
                ok = False if 'FAILS' in rp.stdout else 'inconclusive'
                info = {'crosshair': m.group(0)[:300], 'inputs': kwargs, 'concrete_replay': rp.stdout.strip()[-200:]}
            else:
                ok = 'inconclusive'
        res.append({'label': '%s.crosshair.%s' % (modname.split('_')[-1], fn), 'ok': ok,
                    'info': {'engine': 'crosshair 0.0.110', 'function': '%s.%s' % (modname, fn), 'verdict': verdict,
                             'per_condition_timeout_s': tmo, 'detail': info}})
    return res


if __name__ == '__main__':
    print(json.dumps(run(sys.argv[1], sys.argv[2] if len(sys.argv) > 2 else 'quick'), indent=1))
