"""Whole-bound symbolic summary of one job: digest over (decision sequence, observation terms) of every path.
Run in a fresh interpreter (any PYTHONHASHSEED): equal digests = identical traces as functions of all inputs
of the bound.   python3-vt -m symx.summary <module> <harness> '<cfg json>'"""
import sys
import os
import io
import json
import hashlib
import importlib
import contextlib

VERIF = os.path.dirname(os.path.dirname(os.path.abspath(__file__)))
REPO = os.environ.get('VERIF_REPO', '/repo')
for p in (VERIF, REPO):
    if p not in sys.path:
        sys.path.insert(0, p)


def main():
    from symx import engine
    modname, hname, cfg = sys.argv[1], sys.argv[2], json.loads(sys.argv[3])
    mod = importlib.import_module(modname)
    lines = []
    orig = engine.Engine.end_path

    def ep(self, want_witness=False):
        def tx(v):
            if isinstance(v, (engine.SNum, engine.SBool)):
                return v.t.sexpr()
            if isinstance(v, (list, tuple)):
                return '[' + ','.join(tx(x) for x in v) + ']'
            return repr(v)
        dec = ''.join(('T' if b is True else 'F' if b is False else str(b)) for b, _ in self.trace)
        lines.append(dec + '|' + ';'.join(tx(list(o)) for o in self.obs))
        return orig(self, want_witness)

    engine.Engine.end_path = ep
    with contextlib.redirect_stdout(io.StringIO()):
        r = engine.explore(mod.HARNESSES[hname], cfg, max_seconds=float(os.environ.get('SUMMARY_BUDGET_S', '60')))
    lines.sort()
    dg = hashlib.sha256('\n'.join(lines).encode()).hexdigest()
    print(json.dumps({'digest': dg, 'paths': r['paths'], 'exhaustive': r['exhaustive'],
                      'hashseed': os.environ.get('PYTHONHASHSEED'), 'violations': len(r['violations'])}))


if __name__ == '__main__':
    main()
