"""symx -- symbolic execution of the real onl.* modules with z3.

This module is the mode-agnostic harness API.  A harness is an ordinary Python
function ``h(cfg)`` that builds a small scenario out of the real classes of
/repo and calls the functions below for everything the property quantifies
over.  The same function runs

* symbolically (python3-vt, z3): ``sym_int/sym_real/sym_bool`` return proxies
  (symx.engine.SNum / SBool) and every branch the code under test takes on
  them is decided by the solver;
* concretely (/venv/bin/python, no z3): the same calls return plain Python
  numbers taken from a witness / counterexample, and ``check`` evaluates the
  assertion on the spot.

Oracles must be written with the non-forking combinators (And, Or, Not,
Implies, Ite, eq, ne, lt, le, gt, ge, smin, smax, ssum, lex_lt) so that they
never add paths.
"""
from fractions import Fraction

_ctx = None


def ctx():
    return _ctx


def set_ctx(c):
    global _ctx
    _ctx = c


class HarnessError(Exception):
    """The harness (not the code under test) is wrong or unsupported."""


class PathTimeout(BaseException):
    """Raised by the per-path watchdog (code under test did not quiesce)."""


# ---------------------------------------------------------------------------
# concrete context

TOL = 1e-12     # concrete comparisons of computed floats (inputs of replays are integral / dyadic where possible)


def _close(a, b):
    try:
        return abs(a - b) <= TOL * max(1.0, abs(a), abs(b))
    except TypeError:
        return a == b


class ConcreteCtx:
    mode = 'conc'

    def __init__(self, inputs):
        self.inputs = inputs
        self.obs = []
        self.failed = []       # (label, info)
        self.reached = {}
        self.covers = {}
        self.flags = []
        self.counter = {}
        self.nchecks = 0

    def fresh(self, name):
        return name

    def value(self, name, default=0):
        if name not in self.inputs:
            self.flags.append('diverged:missing-input:' + name)
            return default
        return self.inputs[name]


# ---------------------------------------------------------------------------
# value creation


def _uniq(name):
    c = _ctx.counter
    n = c.get(name, 0)
    c[name] = n + 1
    return name if n == 0 else '%s#%d' % (name, n)


def sym_int(name, lo=None, hi=None):
    """A fresh integer input (unbounded unless lo/hi given)."""
    name = _uniq(name)
    if _ctx.mode == 'conc':
        v = _ctx.value(name, lo if lo is not None else 0)
        if isinstance(v, float) and v == int(v):
            v = int(v)
        if (lo is not None and v < lo) or (hi is not None and v > hi):
            _ctx.flags.append('assume-violated:' + name)
        return v
    return _ctx.new_int(name, lo, hi)


def sym_real(name, lo=None, hi=None, lo_strict=False):
    """A fresh real-valued (float in the concrete run) input."""
    name = _uniq(name)
    if _ctx.mode == 'conc':
        v = float(_ctx.value(name, lo if lo is not None else 0))
        if (lo is not None and (v < lo or (lo_strict and v <= lo))) or \
                (hi is not None and v > hi):
            _ctx.flags.append('assume-violated:' + name)
        return v
    return _ctx.new_real(name, lo, hi, lo_strict)


def sym_num(name, sort, lo=None, hi=None, lo_strict=False):
    """sort in {'int','real'}"""
    if sort == 'int':
        if lo_strict and lo is not None:
            lo = lo + 1
        return sym_int(name, lo, hi)
    return sym_real(name, lo, hi, lo_strict)


def sym_bool(name):
    name = _uniq(name)
    if _ctx.mode == 'conc':
        return bool(_ctx.value(name, False))
    return _ctx.new_bool(name)


def choice(name, n):
    """A finite-domain input in range(n), concretised by case split: the code
    sees a plain Python int; the engine enumerates all n values."""
    name = _uniq(name)
    if n <= 0:
        raise HarnessError('choice over empty domain ' + name)
    if _ctx.mode == 'conc':
        v = int(_ctx.value(name, 0))
        if not 0 <= v < n:
            _ctx.flags.append('assume-violated:' + name)
            v = 0
        return v
    return _ctx.new_choice(name, n)


def assume(cond):
    if _ctx.mode == 'conc':
        if not cond:
            _ctx.flags.append('assume-violated')
        return
    _ctx.assume(cond)


def check(label, cond, info=None):
    """Assertion of the property (non-forking).  Discharged by the solver for
    every input of the current path's region."""
    c = _ctx
    c.reached[label] = c.reached.get(label, 0) + 1
    if c.mode == 'conc':
        c.nchecks += 1
        if not cond:
            c.failed.append((label, info))
        return
    c.add_assert(label, cond, info)


def fail(label, info=None):
    check(label, False, info)


def obs(label, *vals):
    """Record an observation (part of the trace compared between the symbolic
    prediction and the concrete run)."""
    _ctx.obs.append((label,) + tuple(vals))


def cover(label, n=1):
    _ctx.covers[label] = _ctx.covers.get(label, 0) + n


def flag(s):
    if s not in _ctx.flags:
        _ctx.flags.append(s)


def is_symbolic():
    return _ctx.mode == 'sym'


# ---------------------------------------------------------------------------
# non-forking combinators


def _isS(x):
    return hasattr(x, '_symx')


def _anyS(*xs):
    for x in xs:
        if hasattr(x, '_symx'):
            return True
    return False


def _E():
    from . import engine
    return engine


def And(*xs):
    if len(xs) == 1 and isinstance(xs[0], (list, tuple)):
        xs = tuple(xs[0])
    if not _anyS(*xs):
        for x in xs:
            if not x:
                return False
        return True
    return _E().b_and(xs)


def Or(*xs):
    if len(xs) == 1 and isinstance(xs[0], (list, tuple)):
        xs = tuple(xs[0])
    if not _anyS(*xs):
        for x in xs:
            if x:
                return True
        return False
    return _E().b_or(xs)


def Not(x):
    if not _isS(x):
        return not x
    return _E().b_not(x)


def Implies(a, b):
    return Or(Not(a), b)


def Ite(c, a, b):
    if not _isS(c):
        return a if c else b
    return _E().ite(c, a, b)


def eq(a, b):
    if _anyS(a, b):
        return a == b
    if isinstance(a, (int, float, Fraction)) and isinstance(b, (int, float, Fraction)) \
            and not isinstance(a, bool) and not isinstance(b, bool):
        if a == b:
            return True
        if isinstance(a, float) or isinstance(b, float):
            if a in (float('inf'), float('-inf')) or b in (float('inf'), float('-inf')):
                return False
            return _close(a, b)
        return False
    return a == b


def ne(a, b):
    return Not(eq(a, b))


def le(a, b):
    if _anyS(a, b):
        return a <= b
    return a <= b or eq(a, b)


def lt(a, b):
    if _anyS(a, b):
        return a < b
    return a < b and not eq(a, b)


def ge(a, b):
    return le(b, a)


def gt(a, b):
    return lt(b, a)


def smax(*xs):
    if len(xs) == 1 and isinstance(xs[0], (list, tuple)):
        xs = tuple(xs[0])
    r = xs[0]
    for x in xs[1:]:
        r = Ite(ge(r, x), r, x) if _anyS(r, x) else (r if r >= x else x)
    return r


def smin(*xs):
    if len(xs) == 1 and isinstance(xs[0], (list, tuple)):
        xs = tuple(xs[0])
    r = xs[0]
    for x in xs[1:]:
        r = Ite(le(r, x), r, x) if _anyS(r, x) else (r if r <= x else x)
    return r


def ssum(xs, start=0):
    r = start
    for x in xs:
        r = r + x
    return r


def sabs(x):
    if _isS(x):
        return abs(x)
    return abs(x)


def lex_lt(a, b):
    """strict lexicographic order on equal-length tuples, as a term"""
    assert len(a) == len(b)
    res = False
    for x, y in reversed(list(zip(a, b))):
        res = Or(lt(x, y), And(eq(x, y), res))
    return res


def lex_le(a, b):
    return Not(lex_lt(b, a))


def count_true(xs):
    """number of true conditions as a term"""
    r = 0
    for x in xs:
        r = r + Ite(x, 1, 0)
    return r


def conc(x):
    """For recording only: a JSON-able rendering of a value."""
    if _isS(x):
        return x
    return x
