"""Driver: runs the jobs of one property on a process pool, validates witnesses
and counterexamples against the real code under /venv/bin/python, applies the
known-findings file, writes evidence, prints VIOLATION / KNOWN-FINDING lines."""
import sys
import os
import io
import json
import time
import hashlib
import argparse
import importlib
import contextlib
import subprocess
import multiprocessing as mp
from fractions import Fraction

VERIF = os.path.dirname(os.path.dirname(os.path.abspath(__file__)))
REPO = os.environ.get('VERIF_REPO', '/repo')
VENV_PY = os.environ.get('VERIF_VENV_PY', '/venv/bin/python')
for p in (VERIF, REPO):
    if p not in sys.path:
        sys.path.insert(0, p)

from symx.concrete import enc  # noqa: E402

EXIT_OK, EXIT_VIOLATION, EXIT_HARNESS = 0, 1, 2


def _profile_factory(store):
    root = os.path.join(REPO, 'onl') + os.sep

    def prof(frame, event, arg):
        if event == 'call':
            co = frame.f_code
            fn = co.co_filename
            if fn.startswith(root) and co.co_name != '<module>' and not (co.co_name[:1].isupper() and co.co_name == getattr(co, 'co_qualname', '')):
                store.add(fn[len(REPO) + 1:] + ':' + getattr(co, 'co_qualname', co.co_name))
    return prof


def _run_task(args):
    idx, modname, job, deadline, seeds, slice_s = args
    from symx import engine
    mod = importlib.import_module(modname)
    h = mod.HARNESSES[job['harness']]
    opts = dict(job.get('opts') or {})
    left = deadline - time.time()
    if left <= 1.0:
        return idx, {'skipped': True, 'seeds': seeds}
    opts['max_seconds'] = min(opts.get('max_seconds', 600.0), left)
    if seeds:
        opts['witness_cap'] = min(opts.get('witness_cap', 20), 2)
    else:
        slice_s = min(slice_s, 1.5)
    funcs = set()
    buf = io.StringIO()
    try:
        with contextlib.redirect_stdout(buf):
            r = engine.explore(h, job['cfg'], profile=_profile_factory(funcs) if not seeds else None,
                               seeds=seeds, slice_seconds=slice_s, **opts)
    except Exception as ex:  # noqa
        import traceback
        return idx, {'crash': '%s: %s\n%s' % (type(ex).__name__, ex, traceback.format_exc(limit=10))}
    r['functions'] = sorted(funcs)
    # make JSON/pickle friendly
    for v in r['violations']:
        v['inputs'] = enc(v['inputs'])
        v['obs'] = enc(v['obs'])
    for w in r['witnesses']:
        w['inputs'] = enc(w['inputs'])
        w['obs'] = enc(w['obs'])
    return idx, r


def _merge(a, r):
    """merge task result r into the job result a"""
    if a is None:
        return r
    for k in ('paths', 'dead_paths', 'unexplored_prefixes'):
        a[k] = a.get(k, 0) + r.get(k, 0)
    a['wall_s'] = a.get('wall_s', 0) + r.get('wall_s', 0)
    a['exhaustive'] = a['exhaustive'] and r['exhaustive']
    for k in ('flags', 'reached', 'covers'):
        for kk, v in r[k].items():
            a[k][kk] = a[k].get(kk, 0) + v
    a['errors'] = (a['errors'] + r['errors'])[:6]
    a['violations'] = (a['violations'] + r['violations'])[:12]
    a['witnesses'] = a['witnesses'] + r['witnesses']
    a['functions'] = sorted(set(a['functions']) | set(r['functions']))
    for k, v in r['stats'].items():
        if k == 'max_depth':
            a['stats'][k] = max(a['stats'][k], v)
        else:
            a['stats'][k] += v
    return a


def run_jobs(modname, jobs, deadline, nproc, slice_s, verbose=False):
    """dynamic scheduling: a task explores a job (or some sub-trees of it) for at
    most slice_s seconds and hands back the unexplored sibling prefixes, which
    are re-queued as separate tasks so that one big job spreads over all cores."""
    from concurrent.futures import ProcessPoolExecutor, wait, FIRST_COMPLETED
    results = [None] * len(jobs)
    # cheap jobs first (every harness and label gets reached even if the budget runs out); the big ones at the end are
    # spread over all workers by sub-tree hand-over
    order = sorted(range(len(jobs)), key=lambda i: jobs[i].get('weight', 1))
    queue = [(i, None) for i in order]
    inflight = {}
    ctx = mp.get_context('fork')
    with ProcessPoolExecutor(max_workers=nproc, mp_context=ctx) as ex:
        while queue or inflight:
            while queue and len(inflight) < nproc:
                i, seeds = queue.pop(0)
                fut = ex.submit(_run_task, (i, modname, jobs[i], deadline, seeds, slice_s))
                inflight[fut] = (i, seeds)
            done, _ = wait(list(inflight), return_when=FIRST_COMPLETED)
            for fut in done:
                i, seeds = inflight.pop(fut)
                try:
                    idx, r = fut.result()
                except Exception as e:  # noqa
                    idx, r = i, {'crash': 'worker died: %r' % (e,)}
                if r.get('skipped'):
                    if results[i] is None:
                        results[i] = {'skipped': True}
                    else:
                        results[i]['exhaustive'] = False
                        results[i]['unexplored_prefixes'] += len(seeds or [1])
                    continue
                if r.get('crash'):
                    results[i] = r if results[i] is None or results[i].get('skipped') else dict(results[i], crash=r['crash'])
                    continue
                pend = r.pop('pending', [])
                if results[i] is not None and results[i].get('skipped'):
                    results[i] = None
                results[i] = _merge(results[i], r)
                cap = (jobs[i].get('opts') or {}).get('max_paths')
                if pend and cap is not None and results[i]['paths'] >= cap:
                    results[i]['exhaustive'] = False
                    results[i]['unexplored_prefixes'] += len(pend)
                    pend = []
                if pend:
                    # shallow prefixes (big sub-trees) first, a few prefixes per task
                    pend.sort(key=len)
                    nt = max(1, min(len(pend), 2 * nproc))
                    groups = [pend[g::nt] for g in range(nt)]
                    # put in front so that a started job finishes before new ones start
                    queue[0:0] = [(i, g) for g in groups if g]
                if verbose and not pend:
                    pass
    return results


def concrete_batch(modname, items, nproc=8):
    """items: list of dict(harness,cfg,inputs). returns list of results."""
    if not items:
        return []
    nproc = max(1, min(nproc, len(items)))
    chunks = [[] for _ in range(nproc)]
    for i, it in enumerate(items):
        chunks[i % nproc].append((i, it))
    procs = []
    env = dict(os.environ)
    env['PYTHONPATH'] = VERIF + os.pathsep + REPO
    env.setdefault('PYTHONHASHSEED', '0')
    for ch in chunks:
        data = ''.join(json.dumps({'module': modname, 'harness': it['harness'], 'cfg': it['cfg'],
                                   'inputs': it['inputs']}) + '\n' for _, it in ch)
        p = subprocess.Popen([VENV_PY, os.path.join(VERIF, 'symx', 'concrete.py')],
                             stdin=subprocess.PIPE, stdout=subprocess.PIPE, stderr=subprocess.PIPE,
                             env=env, text=True, cwd=VERIF)
        procs.append((p, ch, data))
    out = [None] * len(items)
    for p, ch, data in procs:
        so, se = p.communicate(data)
        lines = [l for l in so.splitlines() if l.strip()]
        for (i, _), l in zip(ch, lines):
            try:
                out[i] = json.loads(l)
            except Exception:  # noqa
                out[i] = {'error': 'bad output: ' + l[:200], 'obs': [], 'failed': [], 'flags': []}
        for (i, _) in ch[len(lines):]:
            out[i] = {'error': 'concrete runner died: ' + se[-400:], 'obs': [], 'failed': [], 'flags': []}
    return out


def _num(x):
    if isinstance(x, dict) and '__q__' in x:
        return x['__q__'][0] / x['__q__'][1]
    return x


def same(a, b, tol=1e-9):
    a, b = _num(a), _num(b)
    if isinstance(a, bool) or isinstance(b, bool):
        return bool(a) == bool(b) if isinstance(a, (bool, int)) and isinstance(b, (bool, int)) else a == b
    if isinstance(a, (int, float)) and isinstance(b, (int, float)):
        return abs(a - b) <= tol * max(1.0, abs(a), abs(b))
    if isinstance(a, list) and isinstance(b, list):
        return len(a) == len(b) and all(same(x, y, tol) for x, y in zip(a, b))
    if isinstance(a, dict) and isinstance(b, dict):
        return set(a) == set(b) and all(same(a[k], b[k], tol) for k in a)
    return a == b


def load_findings():
    p = os.path.join(VERIF, 'known_findings.json')
    if not os.path.exists(p):
        return []
    return json.load(open(p)).get('findings', [])


def match_finding(findings, prop, harness, cfg, labels):
    for f in findings:
        if f.get('status') != 'open' or f.get('property') != prop:
            continue
        if f.get('harness') and f['harness'] != harness:
            continue
        if f.get('labels') and not (set(f['labels']) & set(labels)):
            continue
        cm = f.get('cfg_match') or {}
        if any(cfg.get(k) != v for k, v in cm.items()):
            continue
        return f
    return None


def source_hashes():
    res = {}
    for name, m in list(sys.modules.items()):
        fn = getattr(m, '__file__', None)
        if fn and fn.startswith(os.path.join(REPO, 'onl')):
            try:
                res[fn[len(REPO) + 1:]] = hashlib.sha256(open(fn, 'rb').read()).hexdigest()[:16]
            except OSError:
                pass
    return res


def repo_hashes(files):
    res = {}
    for f in files:
        p = os.path.join(REPO, f)
        try:
            res[f] = hashlib.sha256(open(p, 'rb').read()).hexdigest()[:16]
        except OSError:
            res[f] = 'missing'
    return res


def run_property(modname, tier, seed, nproc=None, only=None, verbose=False):
    t0 = time.time()
    mod = importlib.import_module(modname)
    prop = mod.PROPERTY
    meta = getattr(mod, 'META', {})
    jobs = mod.jobs(tier, seed)
    if only:
        jobs = [j for j in jobs if only in j['harness'] or only in json.dumps(j['cfg'])]
    budget = meta.get('budget_s', {}).get(tier, 75.0 if tier == 'quick' else 480.0)
    budget = float(os.environ.get('VERIF_BUDGET_S', budget))
    deadline = t0 + budget
    nproc = nproc or min(16, os.cpu_count() or 1)
    slice_s = 4.0 if tier == 'quick' else 15.0
    results = run_jobs(modname, jobs, deadline, nproc, slice_s, verbose)
    if verbose:
        for idx, r in enumerate(results):
            r = r or {}
            print('  job %d %s %s: paths=%s viol=%s flags=%s err=%s cpu=%.1fs%s' % (
                idx, jobs[idx]['harness'], json.dumps(jobs[idx]['cfg'], sort_keys=True)[:100],
                r.get('paths'), len(r.get('violations', [])), r.get('flags'),
                (r.get('errors') or [r.get('crash')])[:1], r.get('wall_s', 0),
                '' if r.get('exhaustive', True) else ' NOT-EXHAUSTIVE'), file=sys.stderr)
    findings = load_findings()
    harness_errors = []
    tot = dict(paths=0, decisions=0, forced=0, branch_queries=0, assert_queries=0, model_queries=0,
               obligations=0, discharged=0, solver_s=0.0, unknown=0, timeouts=0, dead=0,
               unexplored=0, nonlinear_ops=0, fallback_queries=0, model_rechecks=0, engine_restarts=0)
    reached, covers, flags = {}, {}, {}
    functions = set()
    exhaustive = True
    skipped_jobs = 0
    nrep, skipped_replays = {}, [0]
    witness_items, witness_meta = [], []
    viol_items, viol_meta = [], []
    per_job = []
    for i, (job, r) in enumerate(zip(jobs, results)):
        if r is None or r.get('skipped'):
            skipped_jobs += 1
            exhaustive = False
            continue
        if r.get('crash'):
            harness_errors.append('job %d %s crashed: %s' % (i, job['harness'], r['crash']))
            continue
        st = r['stats']
        tot['paths'] += r['paths']
        tot['dead'] += r['dead_paths']
        for k in ('decisions', 'forced', 'branch_queries', 'assert_queries', 'model_queries',
                  'obligations', 'discharged', 'unknown', 'timeouts', 'nonlinear_ops', 'fallback_queries', 'model_rechecks', 'engine_restarts'):
            tot[k] += st[k]
        tot['solver_s'] += st['solver_s']
        tot['unexplored'] += r['unexplored_prefixes']
        if not r['exhaustive']:
            exhaustive = False
        for k, v in r['reached'].items():
            reached[k] = reached.get(k, 0) + v
        for k, v in r['covers'].items():
            covers[k] = covers.get(k, 0) + v
        for k, v in r['flags'].items():
            flags[k] = flags.get(k, 0) + v
        functions.update(r['functions'])
        if r['paths'] - r['dead_paths'] <= 0:
            harness_errors.append('job %d %s %s: zero feasible paths (vacuous)' % (i, job['harness'], job['cfg']))
        for e in r['errors']:
            harness_errors.append('job %d %s %s: %s' % (i, job['harness'], json.dumps(job['cfg']), e))
        for w in r['witnesses']:
            witness_items.append({'harness': job['harness'], 'cfg': job['cfg'], 'inputs': w['inputs']})
            witness_meta.append((i, w))
        for v in r['violations']:
            # a few counterexamples per (harness, variant, label set) are replayed; replays of hangs cost a watchdog period each
            vk = (job['harness'], getattr(mod, 'VIOL_KEY', lambda c: '')(job['cfg']), tuple(sorted(set(v['labels']))))
            nrep[vk] = nrep.get(vk, 0) + 1
            if nrep[vk] > (2 if 'no-hang' in v['labels'] else 4):
                skipped_replays[0] += 1
                continue
            viol_items.append({'harness': job['harness'], 'cfg': job['cfg'], 'inputs': v['inputs']})
            viol_meta.append((i, v))
        per_job.append({'harness': job['harness'], 'cfg': job['cfg'], 'paths': r['paths'],
                        'exhaustive': r['exhaustive'], 'wall_s': round(r['wall_s'], 2),
                        'obligations': st['obligations'], 'max_depth': st['max_depth']})
    # ---- concrete validation of witnesses --------------------------------
    validated = 0
    skipped_float = 0
    samples = []
    wres = concrete_batch(modname, witness_items)
    for (ji, w), it, cr in zip(witness_meta, witness_items, wres):
        # a witness whose real inputs could not be made integral / dyadic may differ from its exact-rational prediction
        # by binary64 rounding alone (a tie in exact arithmetic that is none in floats): not an engine error
        inexact = bool(it['cfg'].get('float_inexact')) or not w.get('nice', True)
        if cr.get('error'):
            harness_errors.append('witness replay error job %d: %s' % (ji, cr['error']))
            continue
        bad = None
        if cr['failed']:
            bad = 'concrete run fails %s although the solver discharged it' % (cr['failed'][:2],)
        elif any(f.startswith(('diverged', 'assume-violated', 'timeout')) for f in cr['flags']):
            bad = 'concrete run flags %s' % cr['flags']
        elif not same(w['obs'], cr['obs']):
            bad = 'trace differs: predicted %s observed %s' % (json.dumps(w['obs'])[:300], json.dumps(cr['obs'])[:300])
        if bad:
            if inexact:
                skipped_float += 1
            else:
                harness_errors.append('witness mismatch job %d %s %s inputs=%s: %s' % (
                    ji, it['harness'], json.dumps(it['cfg']), json.dumps(it['inputs']), bad))
        else:
            validated += 1
            if len(samples) < 4:
                samples.append({'harness': it['harness'], 'cfg': it['cfg'], 'witness_inputs': it['inputs'],
                                'trace': cr['obs'][:12]})
    # ---- counterexamples ----------------------------------------------------
    nviol = 0
    known_hit = {}
    printed = set()
    vres = concrete_batch(modname, viol_items)
    os.makedirs(os.path.join(VERIF, 'replays'), exist_ok=True)
    for (ji, v), it, cr in zip(viol_meta, viol_items, vres):
        labels = v['labels']
        got = [l for l, _ in cr.get('failed', [])]
        if 'timeout' in cr.get('flags', []):
            got.append('no-hang')
        if cr.get('error') and 'escaped' in str(cr.get('error')):
            got.append('harness-escape')
        common = [l for l in labels if l in got]
        if any(f.startswith(('assume-violated', 'diverged')) for f in cr.get('flags', [])):
            # inputs outside the harness's stated assumptions are never a counterexample
            common = []
        if not common:
            if it['cfg'].get('float_inexact') and not cr.get('error'):
                skipped_float += 1
                continue
            harness_errors.append('counterexample did not reproduce: job %d %s %s labels=%s inputs=%s concrete=%s' % (
                ji, it['harness'], json.dumps(it['cfg']), labels, json.dumps(it['inputs']),
                json.dumps({k: cr.get(k) for k in ('failed', 'flags', 'error')})[:500]))
            continue
        f = match_finding(findings, prop, it['harness'], it['cfg'], common)
        if f is not None:
            known_hit[f['what']] = known_hit.get(f['what'], 0) + 1
            continue
        nviol += 1
        vk = getattr(mod, 'VIOL_KEY', lambda c: '')(it['cfg'])
        new_labels = [l for l in dict.fromkeys(common) if (it['harness'], l, vk) not in printed]
        if not new_labels:
            continue
        for l in new_labels:
            printed.add((it['harness'], l, vk))
        infos = [x for x in cr.get('failed', []) if x[0] in new_labels][:3]
        body = {'property': prop, 'module': modname, 'harness': it['harness'], 'cfg': it['cfg'],
                'inputs': it['inputs'], 'labels': new_labels, 'info': infos,
                'concrete_failed': cr.get('failed'), 'concrete_obs': cr.get('obs')}
        dg = hashlib.sha256(json.dumps(body, sort_keys=True).encode()).hexdigest()[:12]
        path = os.path.join(VERIF, 'replays', '%s-%s.json' % (prop, dg))
        json.dump(body, open(path, 'w'), indent=1)
        print('VIOLATION property=%s replay=%s' % (prop, path))
        print('  harness=%s cfg=%s failed=%s inputs=%s' % (
            it['harness'], json.dumps(it['cfg']), json.dumps(infos), json.dumps(it['inputs'])))
    # ---- property-specific extra obligations (e.g. C03 hash-seed summaries) --------------------
    extra_ev = []
    if hasattr(mod, 'extra_checks') and not only:
        for x in mod.extra_checks(tier, seed):
            extra_ev.append(x)
            if x['ok'] == 'inconclusive':
                continue            # e.g. CrossHair "Not confirmed": recorded in the evidence, counts for nothing
            if x['ok'] is None:
                harness_errors.append('extra check %s inconclusive: %s' % (x['label'], str(x['info'])[:300]))
            elif not x['ok']:
                nviol += 1
                body = {'property': prop, 'module': modname, 'extra': True, 'labels': [x['label']], 'info': x['info']}
                dg = hashlib.sha256(json.dumps(body, sort_keys=True, default=str).encode()).hexdigest()[:12]
                path = os.path.join(VERIF, 'replays', '%s-%s.json' % (prop, dg))
                json.dump(body, open(path, 'w'), indent=1, default=str)
                print('VIOLATION property=%s replay=%s' % (prop, path))
                print('  %s %s' % (x['label'], json.dumps(x['info'], default=str)[:400]))
    for what, n in known_hit.items():
        print('KNOWN-FINDING: property=%s %s' % (prop, what))
    # ---- vacuity ---------------------------------------------------------------
    if not only:
        for lab in meta.get('required_labels', []):
            if reached.get(lab, 0) == 0 and not (nviol or known_hit):
                harness_errors.append('assertion label %r never reached on a feasible path' % lab)
        for lab in meta.get('required_covers', []):
            if covers.get(lab, 0) == 0 and not (nviol or known_hit):
                harness_errors.append('non-triviality counter %r is zero' % lab)
    if not jobs:
        harness_errors.append('no jobs')
    inconclusive = tot['unknown'] + flags.get('unknown', 0) + flags.get('unknown-obligation', 0)
    unsupported = {k: v for k, v in flags.items() if k.startswith('unsupported') or k.startswith('nondet')}
    if unsupported:
        harness_errors.append('unsupported operations reached: %s' % unsupported)
    wall = time.time() - t0
    nontrivial = covers.get('nontrivial', 0)
    ev = {
        'property_id': prop, 'tier': tier, 'seed': int(seed), 'level': 'model_checking',
        'coverage': {
            'states': tot['paths'] - tot['dead'],
            'transitions': tot['decisions'],
            'traces_validated_against_impl': validated,
            'samples': samples or [{'note': 'no witness sampled'}],
            'evaluations': tot['paths'] - tot['dead'],
            'distinct_nontrivial': nontrivial,
            'rule': meta.get('rule', ''),
            'exhaustive': bool(exhaustive and not harness_errors),
            'obligations': tot['obligations'], 'discharged': tot['discharged'],
            'technique': 'symbolic execution of the real onl.* modules with z3 (symx); every feasible '
                         'path of each bounded harness enumerated, obligations discharged per path region',
            'functions_encoded': sorted(functions),
            'source_sha256_16': repo_hashes(sorted({f.split(':')[0] for f in functions})),
            'bounds': meta.get('bounds', {}).get(tier, meta.get('bounds', '')),
            'jobs': len(jobs), 'jobs_skipped_for_budget': skipped_jobs,
            'queries': {'branch_feasibility': tot['branch_queries'], 'assertion': tot['assert_queries'],
                        'model_refresh': tot['model_queries'],
                        'non_incremental_fallback': tot['fallback_queries'],
                        'counterexample_models_rechecked': tot['model_rechecks'],
                        'engine_restarts_after_solver_timeout': tot['engine_restarts']},
            'forced_branches': tot['forced'],
            'solver_s': round(tot['solver_s'], 2),
            'inconclusive_paths': inconclusive,
            'watchdog_timeouts': tot['timeouts'],
            'unexplored_prefixes': tot['unexplored'],
            'infeasible_paths_discarded': tot['dead'],
            'witness_skipped_float': skipped_float,
            'counterexamples_not_replayed_duplicates': skipped_replays[0],
            'labels_reached': reached, 'covers': covers,
            'stubs': meta.get('stubs', []),
            'outside_claim': meta.get('outside', []),
            'known_findings_hit': known_hit,
            'harness_errors': harness_errors[:10],
            'per_job': per_job[:60],
            'extra_checks': extra_ev[:20],
            'budget_s': budget,
        },
        'assumptions': meta.get('assumptions', []) + [
            'Python float arithmetic modelled as exact rational arithmetic (z3 Real)',
            'z3 5.1.0 and the symx proxies are trusted; validated per run by replaying path witnesses on /venv/bin/python'],
        'wall_s': round(wall, 2),
        'violations': nviol,
    }
    # runs against a scratch copy of the repository (VERIF_REPO=<worktree>, used to try seeded changes) must not
    # overwrite the evidence of the real tree
    evdir = os.path.join(VERIF, 'evidence') if os.path.realpath(REPO) == '/repo' else os.path.join(VERIF, 'scratch', 'evidence')
    os.makedirs(evdir, exist_ok=True)
    json.dump(ev, open(os.path.join(evdir, prop + '.json'), 'w'), indent=1)
    print('%s tier=%s jobs=%d paths=%d decisions=%d obligations=%d discharged=%d validated=%d '
          'nontrivial=%d solver_s=%.1f wall=%.1fs exhaustive=%s violations=%d known=%d inconclusive=%d' % (
              prop, tier, len(jobs), tot['paths'], tot['decisions'], tot['obligations'], tot['discharged'],
              validated, nontrivial, tot['solver_s'], wall, ev['coverage']['exhaustive'], nviol,
              sum(known_hit.values()), inconclusive))
    if nviol:
        return EXIT_VIOLATION
    if harness_errors:
        for e in harness_errors[:12]:
            print('HARNESS-ERROR: ' + e, file=sys.stderr)
        return EXIT_HARNESS
    return EXIT_OK


def replay(path):
    body = json.load(open(path))
    cr = concrete_batch(body['module'], [{'harness': body['harness'], 'cfg': body['cfg'],
                                          'inputs': body['inputs']}])[0]
    print(json.dumps(cr, indent=1)[:4000])
    got = [l for l, _ in cr.get('failed', [])]
    if 'timeout' in cr.get('flags', []):
        got.append('no-hang')
    if any(l in got for l in body['labels']):
        print('VIOLATION property=%s replay=%s' % (body['property'], path))
        return EXIT_VIOLATION
    print('replay did not violate %s' % body['labels'])
    return EXIT_OK


def main(argv=None):
    ap = argparse.ArgumentParser()
    ap.add_argument('prop', nargs='?')
    ap.add_argument('--tier', default=os.environ.get('VERIF_TIER', 'quick'))
    ap.add_argument('--replay')
    ap.add_argument('--only')
    ap.add_argument('-j', type=int, default=None)
    ap.add_argument('-v', action='store_true')
    a = ap.parse_args(argv)
    if a.replay:
        return replay(a.replay)
    seed = int(os.environ.get('VERIF_SEED', '0') or 0)
    tier = a.tier if a.tier in ('quick', 'thorough') else 'quick'
    return run_property('props.' + a.prop.lower(), tier, seed, nproc=a.j, only=a.only, verbose=a.v)


if __name__ == '__main__':
    sys.exit(main())
