"""z3 side of symx: proxies, path exploration by re-execution, obligations."""
import os
import time
import signal
from fractions import Fraction

import z3

import symx
from symx import HarnessError, PathTimeout

INF = float('inf')
NINF = float('-inf')

_const_cache = {}


def _zconst(x):
    """python number -> (z3 term, is_int)"""
    k = (type(x), x)
    r = _const_cache.get(k)
    if r is not None:
        return r
    if isinstance(x, bool):
        r = (z3.IntVal(int(x)), True)
    elif isinstance(x, int):
        r = (z3.IntVal(x), True)
    elif isinstance(x, float):
        if x != x or x in (INF, NINF):
            raise HarnessError('non-finite float in symbolic arithmetic')
        f = Fraction(x)
        r = (z3.RealVal(str(f)) if f.denominator != 1 else z3.RealVal(f.numerator), False)
    elif isinstance(x, Fraction):
        r = (z3.RealVal(str(x)), False)
    else:
        raise TypeError('cannot lift %r into a symbolic number' % (type(x),))
    _const_cache[k] = r
    return r


def _is_num(x):
    return isinstance(x, (int, float, Fraction))


class SBool:
    __slots__ = ('t',)
    _symx = True

    def __init__(self, t):
        self.t = t

    def __bool__(self):
        return symx._ctx.decide(self.t)

    def __and__(self, o):
        return b_and((self, o))

    __rand__ = __and__

    def __or__(self, o):
        return b_or((self, o))

    __ror__ = __or__

    def __invert__(self):
        return SBool(z3.Not(self.t))

    def __eq__(self, o):
        if isinstance(o, SBool):
            return SBool(self.t == o.t)
        if isinstance(o, bool):
            return self if o else SBool(z3.Not(self.t))
        return NotImplemented

    def __ne__(self, o):
        r = self.__eq__(o)
        if r is NotImplemented:
            return r
        return SBool(z3.Not(r.t))

    def __hash__(self):
        return hash(bool(self))

    def __repr__(self):
        return '<symbool>'

    __str__ = __repr__

    def __format__(self, spec):
        return '<symbool>'


def _bt(x):
    if isinstance(x, SBool):
        return x.t
    if isinstance(x, SNum):
        return x.t != 0
    return z3.BoolVal(bool(x))


def b_and(xs):
    ts = []
    for x in xs:
        if isinstance(x, (SBool, SNum)):
            ts.append(_bt(x))
        elif not x:
            return False
    if not ts:
        return True
    return SBool(z3.And(*ts) if len(ts) > 1 else ts[0])


def b_or(xs):
    ts = []
    for x in xs:
        if isinstance(x, (SBool, SNum)):
            ts.append(_bt(x))
        elif x:
            return True
    if not ts:
        return False
    return SBool(z3.Or(*ts) if len(ts) > 1 else ts[0])


def b_not(x):
    return SBool(z3.Not(_bt(x)))


def ite(c, a, b):
    ct = _bt(c)
    if isinstance(a, (SBool, bool)) and isinstance(b, (SBool, bool)):
        return SBool(z3.If(ct, _bt(a), _bt(b)))
    if a is None or b is None or isinstance(a, str) or isinstance(b, str):
        raise HarnessError('Ite over non-numeric values')
    at, ai = _nt(a)
    bt, bi = _nt(b)
    if ai != bi:
        if ai:
            at = z3.ToReal(at)
        else:
            bt = z3.ToReal(bt)
    return SNum(z3.If(ct, at, bt), ai and bi)


def _nt(x):
    if isinstance(x, SNum):
        return x.t, x.is_int
    if isinstance(x, SBool):
        return z3.If(x.t, z3.IntVal(1), z3.IntVal(0)), True
    return _zconst(x)


class SNum:
    """Proxy for a Python int (z3 Int) or float (z3 Real, exact rational)."""
    __slots__ = ('t', 'is_int', 'dom')
    _symx = True

    def __init__(self, t, is_int, dom=None):
        self.t = t
        self.is_int = is_int
        self.dom = dom

    # -- arithmetic -------------------------------------------------------
    def _bin(self, o, op, refl=False):
        if not isinstance(o, SNum):
            if isinstance(o, SBool):
                ot, oi = _nt(o)
            elif _is_num(o):
                if isinstance(o, float) and (o in (INF, NINF)):
                    if op in ('+', '-'):
                        # x + inf == inf etc.
                        if op == '+':
                            return o
                        return (o if refl else -o)
                    raise HarnessError('inf in symbolic product')
                ot, oi = _zconst(o)
            else:
                return NotImplemented
            osym = False
        else:
            ot, oi = o.t, o.is_int
            osym = True
        a, ai, b, bi = (ot, oi, self.t, self.is_int) if refl else (self.t, self.is_int, ot, oi)
        if op == '/':
            if not refl and not osym and o == 0:
                raise ZeroDivisionError('division by zero')       # as CPython does for a concrete zero divisor
            if (refl or osym):
                # divisor symbolic: a zero divisor raises, as in CPython (a decision like any other branch)
                if SBool(b == (z3.IntVal(0) if bi else z3.RealVal(0))):
                    raise ZeroDivisionError('division by zero')
                symx._ctx.note_nonlinear()
            if ai:
                a = z3.ToReal(a)
            if bi:
                b = z3.ToReal(b)
            return SNum(a / b, False)
        ri = ai and bi
        if ai != bi:
            if ai:
                a = z3.ToReal(a)
            else:
                b = z3.ToReal(b)
        if op == '+':
            return SNum(a + b, ri)
        if op == '-':
            return SNum(a - b, ri)
        if op == '*':
            if osym:
                symx._ctx.note_nonlinear()
            return SNum(a * b, ri)
        raise HarnessError('bad op')

    def __add__(self, o):
        return self._bin(o, '+')

    def __radd__(self, o):
        return self._bin(o, '+', True)

    def __sub__(self, o):
        return self._bin(o, '-')

    def __rsub__(self, o):
        return self._bin(o, '-', True)

    def __mul__(self, o):
        return self._bin(o, '*')

    def __rmul__(self, o):
        return self._bin(o, '*', True)

    def __truediv__(self, o):
        return self._bin(o, '/')

    def __rtruediv__(self, o):
        return self._bin(o, '/', True)

    def __floordiv__(self, o):
        if isinstance(o, int) and not isinstance(o, bool) and o > 0 and self.is_int:
            return SNum(self.t / z3.IntVal(o), True)
        symx._ctx.unsupported('floordiv')
        raise TypeError('symx: unsupported floordiv')

    def __mod__(self, o):
        if isinstance(o, int) and not isinstance(o, bool) and o > 0 and self.is_int:
            return SNum(self.t % z3.IntVal(o), True)
        symx._ctx.unsupported('mod')
        raise TypeError('symx: unsupported mod')

    def __pow__(self, o):
        if isinstance(o, int) and not isinstance(o, bool) and 0 <= o <= 4:
            r = 1
            for _ in range(o):
                r = self * r
            return r
        symx._ctx.unsupported('pow')
        raise TypeError('symx: unsupported pow')

    def __neg__(self):
        return SNum(-self.t, self.is_int)

    def __pos__(self):
        return self

    def __abs__(self):
        return SNum(z3.If(self.t >= 0, self.t, -self.t), self.is_int)

    # -- comparisons ------------------------------------------------------
    def _cmp(self, o, op):
        if isinstance(o, SNum):
            a, b = self.t, o.t
            if self.is_int != o.is_int:
                if self.is_int:
                    a = z3.ToReal(a)
                else:
                    b = z3.ToReal(b)
        elif isinstance(o, SBool):
            return self._cmp(SNum(_nt(o)[0], True), op)
        elif _is_num(o):
            if isinstance(o, float) and o in (INF, NINF):
                big = o == INF
                return {'<': big, '<=': big, '>': not big, '>=': not big,
                        '==': False, '!=': True}[op]
            bt, bi = _zconst(o)
            a, b = self.t, bt
            if self.is_int != bi:
                if self.is_int:
                    a = z3.ToReal(a)
                else:
                    b = z3.ToReal(b)
        else:
            if op == '==':
                return False
            if op == '!=':
                return True
            return NotImplemented
        if op == '<':
            return SBool(a < b)
        if op == '<=':
            return SBool(a <= b)
        if op == '>':
            return SBool(a > b)
        if op == '>=':
            return SBool(a >= b)
        if op == '==':
            return SBool(a == b)
        return SBool(a != b)

    def __lt__(self, o):
        return self._cmp(o, '<')

    def __le__(self, o):
        return self._cmp(o, '<=')

    def __gt__(self, o):
        return self._cmp(o, '>')

    def __ge__(self, o):
        return self._cmp(o, '>=')

    def __eq__(self, o):
        return self._cmp(o, '==')

    def __ne__(self, o):
        return self._cmp(o, '!=')

    def __bool__(self):
        return symx._ctx.decide(self.t != 0)

    # -- concretisation ----------------------------------------------------
    def _concretise(self):
        if not self.is_int:
            symx._ctx.unsupported('concretise-real')
            raise TypeError('symx: cannot concretise a real')
        return symx._ctx.concretise(self)

    def __index__(self):
        return self._concretise()

    def __hash__(self):
        return hash(self._concretise())

    def __int__(self):
        symx._ctx.unsupported('int()')
        raise TypeError('symx: int() of a symbolic number')

    def __float__(self):
        symx._ctx.unsupported('float()')
        raise TypeError('symx: float() of a symbolic number')

    def __round__(self, n=None):
        # round half up (CPython rounds exact halves to even: a counterexample sitting exactly on a tie may not replay)
        if self.is_int:
            return self
        if n is None:
            return SNum(z3.ToInt(self.t + z3.RealVal('1/2')), True)
        if isinstance(n, int) and 0 <= n <= 12:
            scale = z3.RealVal(10 ** n)
            return SNum(z3.ToReal(z3.ToInt(self.t * scale + z3.RealVal('1/2'))) / scale, False)
        symx._ctx.unsupported('round()')
        raise TypeError('symx: round() with this precision')

    def __floor__(self):
        return self if self.is_int else SNum(z3.ToInt(self.t), True)

    def __ceil__(self):
        return self if self.is_int else SNum(-z3.ToInt(-self.t), True)

    def __trunc__(self):
        if self.is_int:
            return self
        return SNum(z3.If(self.t >= 0, z3.ToInt(self.t), -z3.ToInt(-self.t)), True)

    def __repr__(self):
        return '<sym>'

    __str__ = __repr__

    def __format__(self, spec):
        return '<sym>'


# ---------------------------------------------------------------------------


def _frac(v):
    """z3 numeral -> int / Fraction"""
    if z3.is_int_value(v):
        return v.as_long()
    if z3.is_rational_value(v):
        f = Fraction(v.numerator_as_long(), v.denominator_as_long())
        return f
    if z3.is_algebraic_value(v):
        return Fraction(v.approx(20).as_fraction())
    raise HarnessError('model value not numeric: %s' % v)


def _guarded_check(solver, seconds=30.0):
    """check() of a fresh (non-incremental) solver under its rlimit plus a wall-clock guard that does not use z3's
    own timer threads: a Python timer thread interrupts the context (the answer is then `unknown`)"""
    import threading
    t = threading.Timer(seconds, solver.ctx.interrupt)
    t.daemon = True
    t.start()
    try:
        return solver.check()
    except z3.Z3Exception:
        return z3.unknown
    finally:
        t.cancel()


class Stats:
    def __init__(self):
        self.paths = 0
        self.decisions = 0       # solver-decided branch points (fresh)
        self.forced = 0
        self.branch_queries = 0
        self.assert_queries = 0
        self.model_queries = 0
        self.fallback_queries = 0
        self.model_rechecks = 0
        self.engine_restarts = 0
        self.obligations = 0
        self.discharged = 0
        self.solver_s = 0.0
        self.unknown = 0
        self.infeasible = 0
        self.timeouts = 0
        self.nonlinear_ops = 0
        self.max_depth = 0

    def as_dict(self):
        return dict(self.__dict__)


class Engine:
    """Symbolic context + DFS explorer.  One per job."""
    mode = 'sym'

    def __init__(self, logic=None, solver_timeout_ms=1500, watchdog_s=20.0):
        if logic:
            self.solver = z3.SolverFor(logic)
        else:
            self.solver = z3.Solver()
        # resource limits instead of wall-clock timeouts: deterministic, and no z3 timer threads (z3 5.1's scoped_timer
        # was seen dead-locked in its destructor, spinning in sched_yield forever, after a few million timed checks)
        self.rlimit = int(os.environ.get('SYMX_RLIMIT', 2000000))
        # 0 = unlimited: the fresh solver is bounded by the 30 s interrupt guard instead
        self.fallback_rlimit = int(os.environ.get('SYMX_FALLBACK_RLIMIT', 0))
        self.solver.set('rlimit', self.rlimit)
        self.solver_timeout_ms = solver_timeout_ms
        self._fresh_model = None
        self.tainted = False
        self.max_depth = 6000      # decisions per path (second watchdog)
        self.stats = Stats()
        self.stack = []
        self.scopes = []      # trace positions of the solver scopes
        self.watchdog_s = watchdog_s
        self.nl_seen = False
        self.seeded = False
        self._reset_path([], None)

    # -- per path state -----------------------------------------------------
    def _reset_path(self, prefix, model):
        self.prefix = prefix
        self.synced = len(prefix) - 1 if prefix else 0
        self.pos = 0
        self.trace = []
        self.model = model
        self.stale = model is None
        self.dead = False
        self.obs = []
        self.asserts = []
        self.reached = {}
        self.covers = {}
        self.flags = []
        self.counter = {}
        self.vars = []        # (name, kind, term)
        self.assumptions = []
        self.decided = {}

    def note_nonlinear(self):
        self.stats.nonlinear_ops += 1
        self.nl_seen = True

    def unsupported(self, what):
        f = 'unsupported:' + what
        if f not in self.flags:
            self.flags.append(f)

    def _check(self, *assumptions, kind='branch', fallback=True):
        t0 = time.perf_counter()
        # the per-path watchdog measures the code under test, not the solver
        left = signal.setitimer(signal.ITIMER_REAL, 0)[0]
        try:
            return self._check2(assumptions, kind, fallback, t0)
        finally:
            if left > 0:
                signal.setitimer(signal.ITIMER_REAL, max(left, 0.05), WATCHDOG_REPEAT)

    def _check2(self, assumptions, kind, fallback, t0):
        if self.tainted and fallback:
            r = z3.unknown          # the incremental solver timed out before: do not trust it for the rest of this path
        else:
            r = self.solver.check(*assumptions)
        self._fresh_model = None
        if r == z3.unknown and fallback:
            self.tainted = True
            # the incremental solver occasionally gets stuck on small mixed Int/Real
            # problems that a fresh solver decides at once: retry non-incrementally
            self.stats.fallback_queries += 1
            s2 = z3.Solver()
            s2.set('rlimit', self.fallback_rlimit)
            s2.add(self.solver.assertions())
            for a in assumptions:
                s2.add(a)
            r = _guarded_check(s2)
            if r == z3.sat:
                self._fresh_model = s2.model()
        self.stats.solver_s += time.perf_counter() - t0
        if kind == 'branch':
            self.stats.branch_queries += 1
        elif kind == 'assert':
            self.stats.assert_queries += 1
        else:
            self.stats.model_queries += 1
        return r

    def _get_model(self):
        if self._fresh_model is not None:
            return self._fresh_model
        return self.solver.model()

    def _model_ok(self):
        try:
            for a in self.solver.assertions():
                if not z3.is_true(self.model.eval(a, model_completion=True)):
                    return False
        except z3.Z3Exception:
            return False
        return True

    def _refresh(self):
        """make self.model a model of the current path condition"""
        r = self._check(kind='model')
        if r == z3.sat:
            self.model = self._get_model()
            self.stale = False
        elif r == z3.unsat:
            self.dead = True
            self.stats.infeasible += 1
            if 'infeasible' not in self.flags:
                self.flags.append('infeasible')
        else:
            self.stats.unknown += 1
            self.dead = True
            if 'unknown' not in self.flags:
                self.flags.append('unknown')

    def _eval_bool(self, e):
        v = self.model.eval(e, model_completion=True)
        if z3.is_true(v):
            return True
        if z3.is_false(v):
            return False
        # not fully evaluated (nonlinear/div by zero); fall back to a solver call
        return None

    # -- positional entries ---------------------------------------------------
    def _positional(self, formula, kind):
        """assume-like entry: occupies a trace position so that re-execution
        knows whether the formula is already in the solver (it is, for every
        position inside the replayed prefix: the prefix ends at the flipped
        decision and every earlier entry lives in a surviving solver scope)."""
        i = len(self.trace)      # position = number of entries consumed/produced so far (never out of step)
        if i < len(self.prefix):
            if self.prefix[i][1] != 'A':
                self.flags.append('nondeterministic-replay')
                self.dead = True
            self.trace.append(self.prefix[i])
            if self.seeded:
                # fresh engine started from a prefix handed over by another worker
                self.solver.add(formula)
            return
        self.trace.append((True, 'A'))
        self.solver.add(formula)
        if self.model is None or self.stale:
            self.stale = True
        else:
            v = self._eval_bool(formula)
            if v is not True:
                self.stale = True

    def assume(self, cond):
        if isinstance(cond, bool):
            if not cond:
                self.dead = True
                if 'infeasible' not in self.flags:
                    self.flags.append('infeasible')
            return
        f = _bt(cond)
        self.assumptions.append(f)
        self._positional(f, 'A')

    def decide(self, e):
        if self.dead:
            return False
        i = len(self.trace)      # position = number of entries consumed/produced so far (never out of step)
        if i > self.max_depth:
            # a loop of the code under test that branches on symbolic values forever: the wall-clock watchdog is
            # paused during solver calls, so the decision count is the second watchdog (same effect as the alarm)
            raise PathTimeout('decision budget of one path exhausted')
        if i < len(self.prefix):
            b, forced = self.prefix[i]
            if forced == 'A' or forced == 'C':
                self.flags.append('nondeterministic-replay')
                self.dead = True
                return False
            if not forced and (i >= self.synced or self.seeded):
                self.solver.push()
                self.scopes.append(i)
                self.solver.add(e if b else z3.Not(e))
            self.trace.append((b, forced))
            return b
        # fresh decision
        hit = self.decided.get(e.get_id())
        if hit is not None:
            # the same formula was decided earlier on this path: the path condition already implies the answer
            self.trace.append((hit[1], True))
            return hit[1]
        r = self._decide_fresh(e)
        self.decided[e.get_id()] = (e, r)
        return r

    def _decide_fresh(self, e):
        i = len(self.trace)
        if self.stale or self.model is None:
            self._refresh()
            if self.dead:
                return False
        v = self._eval_bool(e)
        if v is None:
            r = self._check(e)
            if r == z3.sat:
                self.model = self._get_model()
                v = True
            elif r == z3.unsat:
                self.trace.append((False, True))
                self.stats.forced += 1
                return False
            else:
                self.stats.unknown += 1
                self.flags.append('unknown')
                self.trace.append((False, True))
                return False
        other = z3.Not(e) if v else e
        r = self._check(other)
        if r == z3.unsat:
            self.trace.append((v, True))
            self.stats.forced += 1
            return v
        if r == z3.sat:
            self.stats.decisions += 1
            m2 = self._get_model()
            self.stack.append((self.trace + [(not v, False)], m2))
            self.solver.push()
            self.scopes.append(i)
            self.solver.add(e if v else z3.Not(e))
            self.trace.append((v, False))
            return v
        # the solver could not decide whether the other branch is feasible: do not prune it silently, explore it as
        # well (if it is infeasible its first model refresh will say so); the path is counted as inconclusive
        self.stats.unknown += 1
        if 'unknown' not in self.flags:
            self.flags.append('unknown')
        self.stack.append((self.trace + [(not v, False)], None))
        self.solver.push()
        self.scopes.append(i)
        self.solver.add(e if v else z3.Not(e))
        self.trace.append((v, False))
        return v

    def concretise(self, x):
        if x.dom is None:
            self.unsupported('concretise-without-domain')
            raise TypeError('symx: concretise needs a finite declared domain')
        lo, hi = x.dom
        for v in range(lo, hi):
            if self.decide(x.t == v):
                return v
        return hi

    # -- variables -------------------------------------------------------------
    def new_int(self, name, lo, hi):
        t = z3.Int(name)
        self.vars.append((name, 'int', t))
        cs = []
        if lo is not None:
            cs.append(t >= lo)
        if hi is not None:
            cs.append(t <= hi)
        if cs:
            self._positional(z3.And(*cs) if len(cs) > 1 else cs[0], 'A')
        dom = (lo, hi) if lo is not None and hi is not None else None
        return SNum(t, True, dom)

    def new_real(self, name, lo, hi, lo_strict):
        t = z3.Real(name)
        self.vars.append((name, 'real', t))
        cs = []
        if lo is not None:
            cs.append(t > _zconst(lo)[0] if lo_strict else t >= _zconst(lo)[0])
        if hi is not None:
            cs.append(t <= _zconst(hi)[0])
        if cs:
            self._positional(z3.And(*cs) if len(cs) > 1 else cs[0], 'A')
        return SNum(t, False)

    def new_bool(self, name):
        t = z3.Bool(name)
        self.vars.append((name, 'bool', t))
        return SBool(t)

    def new_choice(self, name, n):
        """finite-domain input in range(n): a fresh variable constrained only by its range, so every
        value is feasible and the case split needs no solver call (pure enumeration)"""
        t = z3.Int(name)
        self.vars.append((name, 'int', t))
        if self.dead:
            return 0
        i = len(self.trace)      # position = number of entries consumed/produced so far (never out of step)
        if i < len(self.prefix):
            v, kind = self.prefix[i]
            if kind != 'C':
                self.flags.append('nondeterministic-replay')
                self.dead = True
                return 0
            if i >= self.synced or self.seeded:
                self.solver.push()
                self.scopes.append(i)
                self.solver.add(t == v)
            self.trace.append((v, 'C'))
            return v
        self.stats.decisions += 1
        for v in range(n - 1, 0, -1):
            self.stack.append((self.trace + [(v, 'C')], None))
        self.solver.push()
        self.scopes.append(i)
        self.solver.add(t == 0)
        self.trace.append((0, 'C'))
        self.stale = True
        return 0

    # -- assertions --------------------------------------------------------------
    def add_assert(self, label, cond, info):
        self.stats.obligations += 1
        if isinstance(cond, SBool):
            self.asserts.append((label, cond.t, info))
        elif isinstance(cond, SNum):
            self.asserts.append((label, cond.t != 0, info))
        else:
            self.asserts.append((label, bool(cond), info))

    # -- exploration ---------------------------------------------------------------
    def start_path(self, prefix, model, seeded=False):
        # pop solver scopes opened at or after the flip position
        k = len(prefix) - 1 if prefix else 0
        while self.scopes and self.scopes[-1] >= k:
            self.scopes.pop()
            self.solver.pop()
        self._reset_path(prefix, model)
        self.synced = k
        self.seeded = seeded
        if seeded:
            while self.scopes:
                self.scopes.pop()
                self.solver.pop()
        self.stats.paths += 1

    def model_value(self, x):
        if isinstance(x, SNum):
            return _frac(self.model.eval(x.t, model_completion=True))
        if isinstance(x, SBool):
            return bool(z3.is_true(self.model.eval(x.t, model_completion=True)))
        if isinstance(x, (list, tuple)):
            return [self.model_value(y) for y in x]
        if isinstance(x, dict):
            return {str(k): self.model_value(v) for k, v in x.items()}
        if isinstance(x, float) and x in (INF, NINF):
            return 'inf' if x > 0 else '-inf'
        if x is None or isinstance(x, (int, float, str, bool, Fraction)):
            return x
        return repr(type(x).__name__)

    def inputs_from_model(self):
        d = {}
        for name, kind, t in self.vars:
            v = self.model.eval(t, model_completion=True)
            if kind == 'bool':
                d[name] = bool(z3.is_true(v))
            else:
                d[name] = _frac(v)
        return d

    def nice_model(self, extra=None):
        """Try to find a model of the path condition (plus `extra`) whose real
        inputs are integers, else multiples of 1/1024; returns True when
        self.model was replaced by such a model."""
        reals = [t for (_, k, t) in self.vars if k == 'real']
        for scale in (1, 1024):
            self.solver.push()
            try:
                if extra is not None:
                    self.solver.add(extra)
                for t in reals:
                    self.solver.add(z3.IsInt(t * scale) if scale != 1 else z3.IsInt(t))
                self.solver.set('rlimit', self.rlimit)
                r = self._check(kind='model', fallback=False)
                if r == z3.sat:
                    self.model = self._get_model()
                    return True
            finally:
                self.solver.set('rlimit', self.rlimit)
                self.solver.pop()
        return False

    def end_path(self, want_witness=False):
        """discharge the deferred obligations of this path; returns a dict"""
        res = {'flags': list(self.flags), 'depth': len(self.trace),
               'reached': dict(self.reached), 'covers': dict(self.covers),
               'violation': None, 'witness': None, 'nobl': len(self.asserts)}
        self.stats.max_depth = max(self.stats.max_depth, len(self.trace))
        if self.dead:
            res['dead'] = True
            return res
        if self.stale or self.model is None:
            self._refresh()
            if self.dead:
                res['dead'] = True
                return res
        # obligations
        if 'timeout' in self.flags:
            self.asserts.append(('no-hang', False, 'per-path watchdog fired: the code under test did not quiesce'))
        conc_false = [(l, i) for (l, c, i) in self.asserts if c is False]
        symb = [(l, c, i) for (l, c, i) in self.asserts if not isinstance(c, bool)]
        viol = None
        if conc_false:
            viol = {'labels': [l for l, _ in conc_false], 'info': [str(i) for _, i in conc_false]}
            self.nice_model()
        elif symb:
            neg = z3.Or(*[z3.Not(c) for (_, c, _) in symb]) if len(symb) > 1 else z3.Not(symb[0][1])
            v = self._eval_bool(neg)
            if v is True:
                r = z3.sat
                self.nice_model(neg)
            else:
                r = self._check(neg, kind='assert')
                if r == z3.sat:
                    self.model = self._get_model()
                    self.nice_model(neg)
            if r == z3.sat:
                bad = []
                infos = []
                for (l, c, i) in symb:
                    ev = self._eval_bool(c)
                    if ev is not True:
                        bad.append(l)
                        infos.append(str(i))
                viol = {'labels': bad, 'info': infos}
            elif r == z3.unknown:
                self.stats.unknown += 1
                res['flags'].append('unknown-obligation')
        if viol is not None and not self._model_ok():
            # defensive: the model must satisfy every asserted constraint of the path (an incremental solver
            # that was interrupted by a timeout has been seen to hand back a stale model): re-decide from scratch
            self.stats.model_rechecks += 1
            s2 = z3.Solver()
            s2.set('rlimit', self.fallback_rlimit)
            s2.add(self.solver.assertions())
            bad = [z3.Not(c) for (_, c, _) in symb] if not conc_false else []
            if bad:
                s2.add(z3.Or(*bad) if len(bad) > 1 else bad[0])
            r2 = _guarded_check(s2)
            if r2 == z3.sat:
                self.model = s2.model()
            elif r2 == z3.unsat:
                viol = None
                if conc_false:
                    res['dead'] = True      # the path itself is infeasible
                    self.stats.infeasible += 1
                    return res
            else:
                viol = None
                self.stats.unknown += 1
                res['flags'].append('unknown-obligation')
        if viol is None and 'unknown-obligation' not in res['flags']:
            self.stats.discharged += len(self.asserts)
        if viol is not None:
            viol['inputs'] = self.inputs_from_model()
            viol['obs'] = [self.model_value(list(o)) for o in self.obs]
            res['violation'] = viol
        elif want_witness:
            nice = self.nice_model()
            res['witness'] = {'nice': bool(nice), 'inputs': self.inputs_from_model(),
                              'obs': [self.model_value(list(o)) for o in self.obs]}
        return res


WATCHDOG_REPEAT = 2.0


def _alarm(signum, frame):
    raise PathTimeout('path watchdog')


def explore(harness, cfg, max_paths=200000, max_seconds=600.0, witness_every=50,
            witness_cap=20, logic=None, watchdog_s=20.0, profile=None, seeds=None,
            slice_seconds=None):
    """Enumerate every feasible path of harness(cfg).  Returns a result dict."""
    eng = Engine(logic=logic, watchdog_s=watchdog_s)
    symx.set_ctx(eng)
    if seeds:
        for pf in reversed(seeds):
            eng.stack.append(([tuple(e) for e in pf], 'SEED'))
    else:
        eng.stack.append(([], None))
    t0 = time.perf_counter()
    out = {'paths': 0, 'violations': [], 'witnesses': [], 'flags': {}, 'reached': {},
           'covers': {}, 'errors': [], 'exhaustive': True, 'dead_paths': 0, 'samples': []}
    signal.signal(signal.SIGALRM, _alarm)
    first = True
    while eng.stack:
        if out['paths'] >= max_paths or time.perf_counter() - t0 > max_seconds:
            out['exhaustive'] = False
            break
        if slice_seconds is not None and out['paths'] > 0 and time.perf_counter() - t0 > slice_seconds:
            break
        prefix, model = eng.stack.pop()
        if model == 'SEED':
            eng.start_path(prefix, None, seeded=True)
        else:
            eng.start_path(prefix, model)
        err = None
        # repeating: code under test may swallow the first PathTimeout (e.g. a kernel that turns any BaseException raised in a
        # process into that process's failure); the alarm keeps firing until the path is abandoned
        signal.setitimer(signal.ITIMER_REAL, watchdog_s, WATCHDOG_REPEAT)
        try:
            if first and profile is not None:
                import sys
                sys.setprofile(profile)
            try:
                harness(cfg)
            finally:
                if first and profile is not None:
                    import sys
                    sys.setprofile(None)
        except PathTimeout:
            eng.flags.append('timeout')
            eng.stats.timeouts += 1
        except HarnessError as ex:
            err = 'HarnessError: %s' % ex
        except Exception as ex:  # noqa
            import traceback
            err = 'escaped %s: %s\n%s' % (type(ex).__name__, ex, traceback.format_exc(limit=8))
        finally:
            signal.setitimer(signal.ITIMER_REAL, 0)
        first = False
        n = out['paths']
        want_w = (n % witness_every == 0) and len(out['witnesses']) < witness_cap
        res = eng.end_path(want_witness=want_w)
        out['paths'] += 1
        if res.get('dead'):
            out['dead_paths'] += 1
        for f in res['flags']:
            out['flags'][f] = out['flags'].get(f, 0) + 1
        if not res.get('dead'):
            for k, v in res['reached'].items():
                out['reached'][k] = out['reached'].get(k, 0) + 1
            for k, v in res['covers'].items():
                out['covers'][k] = out['covers'].get(k, 0) + 1
        if err and not res.get('dead'):
            out['errors'].append(err)
            if len(out['errors']) > 5:
                out['exhaustive'] = False
                break
        if res['violation'] is not None:
            if len(out['violations']) < 8:
                out['violations'].append(res['violation'])
            if eng.stats.timeouts >= 2:
                # the code under test keeps hanging (each such path costs a full watchdog period): the job already
                # has its counterexamples, stop here and say so
                out['exhaustive'] = False
                break
        if res['witness'] is not None:
            out['witnesses'].append(res['witness'])
        if eng.tainted and eng.stack:
            # an interrupted incremental solver is not reused: continue the remaining sub-trees on a fresh engine
            old_eng = eng
            eng = Engine(logic=logic, watchdog_s=watchdog_s)
            eng.stats = old_eng.stats
            eng.stats.engine_restarts += 1
            for pf, _ in old_eng.stack:
                eng.stack.append((pf, 'SEED'))
            symx.set_ctx(eng)
    out['pending'] = [[list(e) for e in pf] for pf, _ in eng.stack] if out['exhaustive'] else []
    out['unexplored_prefixes'] = len(eng.stack) if not out['exhaustive'] else 0
    out['stats'] = eng.stats.as_dict()
    out['wall_s'] = time.perf_counter() - t0
    symx.set_ctx(None)
    return out
