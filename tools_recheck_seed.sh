#!/bin/bash
# usage: tools_recheck_seed.sh <seed dir name under seeded/> [check ids...]
# re-applies a saved seeded change to a scratch worktree of /repo's HEAD and runs the checks against it (worktree removed afterwards)
name=$1; shift
id=${name%%-*}; checks=${@:-$(python3 -c "import json;print(' '.join(k for k,v in json.load(open('/verif/seeded/$name/meta.json'))['checks'].items() if v['violation_reported']))")}
wt=/tmp/reseed_$name
git -C /repo worktree add -q --detach $wt HEAD || exit 9
( cd $wt && git apply /verif/seeded/$name/patch.diff ) || { echo "$name: PATCH DOES NOT APPLY to current HEAD"; git -C /repo worktree remove --force $wt; exit 8; }
cd /verif
for c in $checks; do
  out=$(VERIF_REPO=$wt ./check $c --tier ${TIER:-quick} 2>&1)
  if echo "$out" | grep -q "VIOLATION property=$c"; then echo "$name: $c reports ($(echo "$out" | grep -o '\["c[0-9][0-9][^"]*"' | sort -u | head -3 | tr -d '["' | tr '\n' ' '))"; else echo "$name: $c SILENT"; fi
done
git -C /repo worktree remove --force $wt
