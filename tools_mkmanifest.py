#!/usr/bin/env python3
"""Regenerates MANIFEST.json from the property modules that exist (props/cNN.py with a MANIFEST dict)."""
import json, os, sys, importlib
HERE = os.path.dirname(os.path.abspath(__file__))
sys.path.insert(0, HERE)
props = [json.loads(l) for l in open(os.path.join(HERE, 'properties.jsonl'))]
checks, na, served = [], [], []
for p in props:
    pid = p['id']
    fn = os.path.join(HERE, 'props', pid.lower() + '.py')
    man = None
    if os.path.exists(fn):
        src = open(fn).read()
        ns = {}
        # MANIFEST dict is a literal at the end of the module: evaluate only that assignment
        i = src.find('\nMANIFEST = ')
        if i >= 0:
            exec(src[i + 1:], ns)
            man = ns['MANIFEST']
    if man is None:
        na.append({'property_id': pid, 'reason': 'check under construction (see DESIGN.md section 5); not yet claimed'})
        continue
    served.append(pid)
    checks.append({
        'property_id': pid,
        'quick_cmd': './check %s --tier quick' % pid,
        'thorough_cmd': './check %s --tier thorough' % pid,
        'evidence_file': '/verif/evidence/%s.json' % pid,
        'replay_cmd_template': './check --replay {path}',
        'engine': 'symx',
        'level_claimed': {'category': 'model_checking', 'text': man['level_text'], 'design_ref': man.get('design_ref', 'DESIGN.md section 5, ' + pid)},
        'level_note': man['level_note'],
        'technique': man.get('technique', 'solver-based bounded checking: symbolic execution of the real Python modules with z3 (all feasible paths of bounded harnesses; per-path obligations discharged by the solver; counterexamples replayed concretely)'),
    })
m = {
    'version': 1,
    'setup_cmd': "python3-vt -c 'import z3' && /venv/bin/python -c 'import onl'",
    'hooks': {'guard': 'ONL_EDU_VERIF', 'enable': 'no source hooks are used; checks import /repo as it is',
              'baseline_off_cmd': 'cd /repo && /venv/bin/python -m pytest -ra -q -p no:cacheprovider --timeout=900 --continue-on-collection-errors',
              'source_commits': [], 'add_only': True},
    'engines': [{'name': 'symx', 'path': '/verif/symx', 'serves_properties': served,
                 'kind_free_text': 'z3-backed symbolic executor for the real onl.* Python modules: number proxies, path enumeration by re-execution with an incremental solver, per-path obligations, concrete replay on /venv/bin/python'}],
    'checks': checks,
    'notes': 'See DESIGN.md. ./check <ID> --tier quick|thorough; exit 0 held / 1 VIOLATION / 2 harness error (never a verdict). known_findings.json lists fixed and open findings.',
    'not_applicable': na,
}
json.dump(m, open(os.path.join(HERE, 'MANIFEST.json'), 'w'), indent=1)
print('claimed', served)
