#!/bin/bash
# usage: tools_eval_seed.sh <ID> [check ids...]  -- evaluates a sub-agent's change living in /tmp/mut/<ID> (+ /tmp/mut/out/<ID>)
# 1. suite passes with the change  2. demo fails with / passes without  3. run the listed checks (default: <ID>) against the changed tree
id=$1; shift; checks=${@:-$id}
base=${MUTDIR:-/tmp/mut}; wt=$base/$id; out=$base/out/$id
cd $wt || exit 9
git checkout -q -- . ; git apply $out/patch.diff || { echo "PATCH DOES NOT APPLY"; exit 9; }
echo "== diffstat"; git diff --stat | tail -3
echo "== suite with change"; /venv/bin/python -m pytest -q -p no:cacheprovider --timeout=900 2>&1 | tail -1
echo "== demo with change"; PYTHONPATH=$wt timeout 120 /venv/bin/python $out/demo.py >$out/demo_with.log 2>&1; echo "exit=$?"
git checkout -q -- .
echo "== demo without change"; PYTHONPATH=$wt timeout 120 /venv/bin/python $out/demo.py >$out/demo_without.log 2>&1; echo "exit=$?"
git apply $out/patch.diff
cd /verif
for c in $checks; do
  echo "== check $c against the changed tree"
  VERIF_REPO=$wt ./check $c --tier ${TIER:-quick} 2>&1 | grep -E "VIOLATION|HARNESS-ERROR|KNOWN|^$c tier|failed=" | cut -c1-420 | head -8
done
